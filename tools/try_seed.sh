#!/bin/bash
# usage: tools/try_seed.sh C05 [check ids...]   (worktree /tmp/seedwork/wt_<id> with _seed/{patch.diff,demo.py,meta.json})
# Confirms: patch applies to /repo HEAD, demo fails with / passes without, tests green with; then runs the quick checks
# against a scratch copy with the patch (FLODYM_SRC) and stores everything under /verif/seeded/<id>/.
id=$1; shift
prop=${id:0:3}
checks=${@:-$prop}
wt=/tmp/seedwork/wt_$id
dst=/verif/seeded/$(echo $id | sed -e "s/r2/_2/" -e "s/r3/_3/" -e "s/r4/_4/" -e "s/r5/_5/" -e "s/r6/_6/" -e "s/r7/_7/" -e "s/r8/_8/" -e "s/r10/_10/" -e "s/r9/_9/")
[ -f $wt/_seed/patch.diff ] || { echo "no patch in $wt/_seed"; exit 2; }
scratch=$(mktemp -d /tmp/seedtry_XXXX)
rsync -a --exclude .git --exclude __pycache__ --exclude _seed --exclude '*.ipynb' /repo/ $scratch/repo/
mkdir -p $scratch/repo/_seed; cp $wt/_seed/demo.py $scratch/repo/_seed/
( cd $scratch/repo && /venv/bin/python _seed/demo.py >/dev/null 2>&1 ); without=$?
( cd $scratch/repo && git init -q . 2>/dev/null; git apply $wt/_seed/patch.diff ) || { echo "PATCH DOES NOT APPLY"; rm -rf $scratch; exit 2; }
( cd $scratch/repo && /venv/bin/python _seed/demo.py > $scratch/demo_with.txt 2>&1 ); with=$?
( cd $scratch/repo && PYTHONPATH=$scratch/repo /venv/bin/python -m pytest -q -x -p no:cacheprovider tests >/dev/null 2>&1 ); tests=$?
echo "demo without change: exit $without (want 0); with change: exit $with (want 1); tests with change: exit $tests (want 0)"
mkdir -p $dst; cp $wt/_seed/patch.diff $wt/_seed/demo.py $dst/
results=""
for c in $checks; do
  out=$(cd ${VERIF_CHECK_DIR:-/verif} && FLODYM_SRC=$scratch/repo VERIF_OUT=$scratch/out ./check $c --tier quick 2>&1); rc=$?
  b=$(echo "$out" | grep -m2 "bucket=" | cut -c1-220 | tr '\n' ' ')
  echo "check $c: exit $rc  $b"
  results="$results{\"check\":\"$c\",\"exit\":$rc},"
done
/venv/bin/python - "$wt/_seed/meta.json" "$dst/meta.json" "$without" "$with" "$tests" "[${results%,}]" <<'PY'
import json,sys
src,dst,wo,wi,t,res=sys.argv[1:7]
try: m=json.load(open(src))
except Exception: m={}
m.update({"demo_exit_without_change":int(wo),"demo_exit_with_change":int(wi),"tests_exit_with_change":int(t),
          "ran":"tools/try_seed.sh: patch applied to a scratch copy of /repo HEAD, demo run with and without it, repository test suite, then ./check <id> --tier quick with FLODYM_SRC pointing at the copy",
          "quick_checks":json.loads(res)})
json.dump(m,open(dst,'w'),indent=1)
PY
rm -rf $scratch
