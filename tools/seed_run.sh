#!/bin/bash
# usage: tools/seed_run.sh <seeded dir name> <check ids...>   e.g. tools/seed_run.sh C06_5 C06
# Applies seeded/<name>/patch.diff to a scratch copy of /repo and runs the quick checks against it.
id=$1; shift
sx=$(mktemp -d /tmp/seedrun_XXXX)
rsync -a --exclude .git --exclude '*.ipynb' --exclude __pycache__ /repo/ $sx/repo/
(cd $sx/repo && git init -q . 2>/dev/null; git apply /verif/seeded/$id/patch.diff) || { echo "patch does not apply"; rm -rf $sx; exit 2; }
for c in "$@"; do
  (cd ${VERIF_CHECK_DIR:-/verif} && FLODYM_SRC=$sx/repo VERIF_OUT=$sx/out ./check $c --tier ${TIER:-quick} ${SEED:+--seed $SEED} 2>&1) | grep -v "^WARNING conda" | tail -${TAILN:-4}
done
rm -rf $sx
