#!/venv/bin/python
"""Regenerates MANIFEST.json from the table below (single source of truth)."""
import json, os, sys

HERE = os.path.dirname(os.path.dirname(os.path.abspath(__file__)))
sys.path.insert(0, HERE)

CHECKS = {
    # id: (category, technique, level text, level note, design ref)
    "C01": (
        "exploration",
        "Hypothesis-generated operand configurations with symbolic (sympy) / rational / float values + exhaustive "
        "configuration enumeration, against a label-dict reference model",
        "Every generated configuration (operand dimension subsets, storage orders, item counts, operator, number/reflected/"
        "unary forms) is compared with a plain-loop label-dict model; with symbolic values the comparison is a polynomial "
        "identity, so the configuration is decided for all real values. The space of ordered operand pairs over a 3-dim "
        "(thorough: 4-dim) universe is enumerated completely with label-coded values.",
        "Trusts vlib/model.py and sympy's cancel(); object-dtype arrays cannot be 0-d, so 0-d operands are covered with "
        "float64 / label-coded values only; bounds <= 4 dims, <= 4 items.",
        "DESIGN.md C01",
    ),
    "C02": (
        "exploration",
        "Hypothesis-generated system graphs with exact perturbations against an independent Fraction-arithmetic balance model",
        "Systems with arbitrary process graphs, per-flow dimension subsets/orders and stock attachments are generated with exact "
        "integer values, optionally closed exactly and perturbed in one entry just below/above the explicit or default tolerance, "
        "with NaN injection and both raise_error modes; the verdict of check_mass_balance / check_flows (exception or WARNING "
        "record, text not inspected) is compared with a balance recomputed with Fractions from the descriptor.",
        "Trusts the balance model in props/c02_massbalance.py; cases within 4x a-priori float noise of the threshold are discarded and counted.",
        "DESIGN.md C02",
    ),
    "C03": (
        "exploration",
        "Hypothesis-generated stock configurations checked against the conservation invariant with independently derived interval lengths",
        "Every stock class / solver / lifetime model / parameter shape / time grid (unit, constant non-unit, uneven, int or float "
        "items) / driver is generated and the per-step identity stock(t)-stock(t-1) = dt(t)(inflow-outflow) is checked per label with "
        "dt from the documented mid-point rule; the library's own check_stock_balance must accept computed and reject perturbed stocks.",
        "dt recomputed from howto 06 in vlib/stockgen.py; tolerance 1e-9 x magnitude; grids <= 14 items, <= 2 extra dims.",
        "DESIGN.md C03",
    ),
    "C08": (
        "exploration",
        "differential testing of Hypothesis-generated lifetime models against closed-form survival functions + exhaustive check of the 10 quadrature tables",
        "Survival and outflow tables of generated models (5 distributions, scalar / per-label / per-cohort parameters in any dim "
        "order, inflow_at, 1-10 quadrature points, all grid kinds) are checked for the structural invariants and entry by entry "
        "against closed forms written with math.erfc/exp/log and Gauss-Lobatto rules derived from Legendre polynomials; the ten "
        "tabulated rules are verified exhaustively.",
        "Trusts math.erfc/exp/log and numpy.polynomial.legendre; tolerance 1e-9 (tables 1e-13); parameters inside the models' ranges.",
        "DESIGN.md C08",
    ),
    "C16": (
        "exploration",
        "metamorphic testing (superposition, impulse basis, truncation, label slicing, calendar shift) over Hypothesis-generated DSM configurations",
        "For each generated configuration all unit impulses, all truncation points and all label slices are executed (exhaustive "
        "per configuration) together with random linear combinations and calendar shifts; stock, inflow, outflow and both cohort "
        "tables of related runs must satisfy the linearity / causality / independence relations.",
        "No reference model; tolerance scales with cond_inf(sf); ill-conditioned stock-driven cases discarded and counted.",
        "DESIGN.md C16",
    ),
    "C17": (
        "exploration",
        "model-based history generation: every compute() compared with a freshly built object (differential)",
        "Generated histories of set-driver / set_prms / compute / read-table steps on every stock class, and scenario loops on an "
        "MFASystem built from definitions, are compared after every compute() with a freshly constructed object holding the same "
        "inputs; a second compute() must change nothing.",
        "Fresh object and recomputed object share the code path, so equality is expected to 1e-12; parameters changed only through set_prms.",
        "DESIGN.md C17",
    ),
    "C18": (
        "exploration",
        "Hypothesis-generated definitions and dimension/parameter files compared attribute by attribute with an attribute model; negative cases must be refused",
        "Generated MFADefinitions are built through the helper functions and from_data_reader / from_csv / from_excel (real files in a "
        "temp dir) and every attribute of processes, flows, stocks, parameters and dimensions is compared with the definition; 13 kinds "
        "of ill-formed definitions must raise; dimension files in every orientation / header / type / sheet variant must yield the "
        "items in file order with the declared type.",
        "Attribute model in props/c18_build.py; flow names distinct by construction; items are identifiers pandas does not re-interpret.",
        "DESIGN.md C18",
    ),
    "C19": (
        "exploration",
        "round-trip / content-bijection testing of exports over Hypothesis-generated systems",
        "convert_to_dict (numpy, pandas), pickle and CSV exports of generated systems are compared key by key with the system; "
        "pandas and CSV forms are re-imported through from_df into identical arrays; exported files are matched one-to-one to arrays "
        "by content; the system must be unchanged; MFADefinition.to_dfs is compared with model_dump().",
        "CSV files are read back by the harness with pandas' round-trip float parser; names distinct after sanitising by construction.",
        "DESIGN.md C19",
    ),
    "C20": (
        "exploration",
        "Hypothesis-generated systems/arrays rendered to figures whose data is compared with a label-dict model of links and lines",
        "The Sankey figure's link list (source/target node labels, values, labels) and the plotly / pyplot line data (subplot via axis "
        "anchor / axes order, x and y data) of generated configurations are read from the figure objects and compared as multisets "
        "with the model; titles, legends and colours are not inspected.",
        "Figure-reading side (node labels, xaxis anchors, axes order) is part of the trusted base; values rounded to 9 decimals.",
        "DESIGN.md C20",
    ),
    "C09": (
        "exploration",
        "Hypothesis-generated DSM configurations checked against cohort-table invariants",
        "For both DSM classes and solvers on all grid kinds: totals equal cohort sums, tables vanish for c > t, cohort stock equals "
        "whole-interval inflow times the public survival table, cohort stock never increases for non-negative inflow, and every "
        "cohort is conserved (entered = in stock + left so far).",
        "Reads lifetime_model.sf (validated separately by C08); tolerance 1e-9 x magnitude.",
        "DESIGN.md C09",
    ),
    "C10": (
        "exploration",
        "round-trip and solver-differential testing over Hypothesis-generated DSM configurations",
        "Inflow-driven -> stock-driven (both solvers) and stock-driven -> inflow-driven round trips on generated well-conditioned "
        "configurations must reproduce inflow, outflow, stock and both cohort tables; manual and lapack solvers must agree. "
        "A short exhaustive list of large models (survival tables up to 130 MiB) covers size thresholds of the solvers.",
        "Tolerance scales with cond_inf of the survival table; cases with first-interval survival < 0.05 or cond > 1e8 are discarded and counted.",
        "DESIGN.md C10",
    ),
    "C04": (
        "exploration",
        "metamorphic testing: Hypothesis-generated operations run in base and permuted storage orders + exhaustive permutation enumeration",
        "Each generated operation of the public catalogue is executed twice on the same labelled data, once per storage order of "
        "every participating array; results are compared by label and the result's dimension order against the documented rule. "
        "All permutations of all participating arrays are enumerated for 16 operation templates over an equal-length universe.",
        "No reference model: the oracle is agreement between the two runs plus the order rule; bounds <= 4 dims, <= 3 items.",
        "DESIGN.md C04",
    ),
    "C05": (
        "exploration",
        "Hypothesis-generated assignment histories against a dict model of the target, symbolic values for the summation identity",
        "Sequences of 1-6 assignments with every key form and source kind are applied to one target and to a dict model; dims, "
        "shape and all entries are compared after each step, rejected steps must leave the target bit-identical, assigned "
        "ndarrays are overwritten afterwards to expose aliasing.",
        "Trusts vlib/model.py; list selectors only with number/ndarray sources; bounds <= 4 dims, <= 6 steps.",
        "DESIGN.md C05",
    ),
    "C06": (
        "exploration",
        "Hypothesis-generated keys + exhaustive selector-kind enumeration against a label-dict reference model",
        "Keys assigning a selector kind (none/single/subset Dimension/list) to every dimension position, in all key "
        "syntaxes, are generated for arrays of up to 5 dims and compared entry by entry (reads) or by full target state "
        "(writes) with a plain-loop model; selector-kind patterns are enumerated exhaustively up to 3 (thorough 4) dims "
        "for equal- and mixed-length patterns; ill-formed keys must raise and leave the array untouched.",
        "Trusts vlib/model.py; label-coded values make any misplacement visible; bounds <= 5 dims, <= 3 items.",
        "DESIGN.md C06",
    ),
    "C07": (
        "exploration",
        "Hypothesis-generated reductions/casts/shares with symbolic, label-coded and float values against a label-dict model",
        "sum_to / sum_over / cumsum / cast_to / get_shares_over are generated over all kept/summed/added dimension tuples and "
        "orders and all ways of naming them and compared with explicit-loop marginal sums; symbolic values decide the linear "
        "identities for all values per configuration; unknown dimensions and deficient cast targets must be rejected.",
        "Trusts vlib/model.py and sympy; 0-d results only with float storage; bounds <= 4 dims, <= 4 items.",
        "DESIGN.md C07",
    ),
    "C11": (
        "exploration",
        "round-trip testing over Hypothesis-generated arrays x layouts x header styles x permutations (to_df -> from_df, rendered frames, CSV text) + row-faithfulness on faulty frames",
        "Exports in every layout are parsed back with plain loops; exported and independently rendered frames in every supported "
        "layout/header style/permutation (also through CSV text) must import into the identical array; for every faulty frame "
        "of the C12 generator each non-zero imported entry must stem from the unique row with its labels.",
        "Strong clause restricted to the documented domain (see assumptions in the evidence); bounds <= 4 dims, <= 3 items, frames <= 81 rows.",
        "DESIGN.md C11",
    ),
    "C12": (
        "fault_enumeration",
        "fault injection at generated and at every position of rendered frames x 4 flag combinations x 4 entry points, against a contract model",
        "Single faults are enumerated at every row/cell/column position of several frames and layouts (exhaustive), combined faults "
        "are generated; from_df, set_values_from_df (prior content must survive), CSV and Excel parameter readers (real files) are "
        "compared with a contract model of the default / allow_missing_values / allow_extra_values behaviour.",
        "Contract model in props/c12_import_faults.py written from the statement; two contract-silent situations are not asserted (listed in evidence).",
        "DESIGN.md C12",
    ),
    "C13": (
        "exploration",
        "model-based history generation (Hypothesis step lists) with a shape invariant and snapshot atomicity after every step",
        "Histories of up to 25 (thorough 50) steps over a pool of arrays and stocks mix 39 kinds of well-formed and deliberately "
        "ill-formed public calls; after every step every reachable array must have values.shape == dims.shape over distinct "
        "letters, ill-formed calls must raise, and any raising step must leave every snapshot unchanged.",
        "Validity of each step is decided by construction in props/c13_shape.py; direct attribute overwrites are excluded as the property says.",
        "DESIGN.md C13",
    ),
    "C15": (
        "exploration",
        "operation catalogue x Hypothesis-generated arrays with deep input snapshots and bidirectional write-through probes",
        "40 public non-in-place operations are run on generated arrays; all inputs are snapshotted before/after, and every result "
        "the statement lists as independent is probed by writing a sentinel into its values and editing its dims in place (and the "
        "reverse direction).",
        "Snapshot = value bytes + dims letters/names/items; reductions' results are only checked for input purity, as the statement lists.",
        "DESIGN.md C15",
    ),
    "C14": (
        "exploration",
        "exhaustive pair enumeration + generated operation histories (Hypothesis) against an ordered-list model",
        "All 4225 ordered receiver/argument pairs over a 4-dimension alphabet are enumerated for every set operator, "
        "named method and subset selection; in-place/out-of-place histories over a pool of sets and arrays are "
        "generated and compared with a per-object list model after every step. Sets holding two dimensions of the same name "
        "(different letters) are enumerated exhaustively and exercised by letter. Exhaustive for pairs and same-name sets, sampled for histories.",
        "Trusts the list model in props/c14_dimsets.py; dimension identity = letter; bounds: alphabet of 7 dimensions (one empty), <= 30 steps.",
        "DESIGN.md C14",
    ),
}

NOT_BUILT = "check not built yet in this round (see DESIGN.md for the planned generator/oracle)"


def main():
    props = [json.loads(l) for l in open(os.path.join(HERE, "properties.jsonl"))]
    checks = []
    na = []
    for p in props:
        pid = p["id"]
        if pid in CHECKS:
            cat, tech, text, note, ref = CHECKS[pid]
            checks.append(
                {
                    "property_id": pid,
                    "quick_cmd": f"./check {pid} --tier quick",
                    "thorough_cmd": f"./check {pid} --tier thorough",
                    "evidence_file": f"/verif/evidence/{pid}.json",
                    "replay_cmd_template": f"./check {pid} --replay {{path}}",
                    "engine": "pbt",
                    "level_claimed": {"category": cat, "text": text, "design_ref": ref},
                    "level_note": note,
                    "technique": tech,
                }
            )
        else:
            na.append({"property_id": pid, "reason": NOT_BUILT})
    man = {
        "version": 1,
        "setup_cmd": "/venv/bin/pip install -q --no-index --find-links /opt/veriftools/wheels --upgrade --target /verif/.deps hypothesis sympy atheris jsonschema",
        "hooks": {
            "guard": "FLODYM_VERIF",
            "enable": "no hooks are compiled in: checks import flodym straight from /repo's working tree (FLODYM_SRC=/repo); FLODYM_VERIF=1 is exported but no source reads it",
            "baseline_off_cmd": "cd /repo && env -u FLODYM_VERIF /venv/bin/python -m pytest -q -p no:cacheprovider",
            "source_commits": [],
            "add_only": True,
        },
        "engines": [
            {
                "name": "pbt",
                "path": "/verif/check",
                "serves_properties": sorted(CHECKS),
                "kind_free_text": "property-based testing: Hypothesis-generated case descriptors / enumerated finite spaces, "
                "reference-model and metamorphic oracles, shrunk JSON replays (vlib/runner.py)",
            }
        ],
        "checks": checks,
        "notes": "VERIF_SEED selects the Hypothesis seed of every facet/shard; exit 2 = harness error. "
        "known_findings.txt lists open and fixed findings.",
        "not_applicable": na,
    }
    json.dump(man, open(os.path.join(HERE, "MANIFEST.json"), "w"), indent=1)
    try:
        sys.path.append(os.path.join(HERE, ".deps"))
        import jsonschema

        jsonschema.validate(man, json.load(open("/root/.vp/MANIFEST.schema.json")))
        print("MANIFEST.json valid;", len(checks), "checks,", len(na), "not claimed")
    except ImportError:
        print("written (jsonschema unavailable)")


main()
