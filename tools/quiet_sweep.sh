#!/bin/bash
# Runs every quick check on the unchanged tree at several VERIF_SEED values in fresh processes; prints non-zero exits.
seeds=${@:-1 2 3}
for s in $seeds; do for n in $(seq -w 1 20); do
  out=$(cd /verif && PYTHONHASHSEED=0 VERIF_SEED=$s ./check C$n --tier quick 2>&1); rc=$?
  echo "seed $s C$n exit $rc $(echo "$out" | tail -1 | cut -c1-110)"
  [ $rc -ne 0 ] && echo "$out" | grep -E "VIOLATION|bucket|HARNESS" | head -5
done; done
