#!/bin/bash
# Runs every thorough check once (sequentially; each uses 16 processes) and prints one summary line per property.
cd /verif
for n in $(seq -w 1 20); do
  /usr/bin/time -f "C$n wall %e s" ./check C$n --tier thorough 2>&1 | grep -E "VIOLATION|bucket=|thorough seed|HARNESS|wall"
done
