#!/bin/bash
# For every seeded change: apply to a scratch copy and run the quick check of its own property at several VERIF_SEED values.
# usage: tools/seed_matrix.sh [seeds...]   -> seeded/MATRIX.md
seeds=${@:-2 3}
out=/verif/seeded/MATRIX.md
echo "# Seeded changes x VERIF_SEED (quick tier of the seed's own property; 1 = VIOLATION reported)" > $out
echo "" >> $out; echo "| seed | $(echo $seeds | sed 's/ / | /g') |" >> $out; echo "|---|$(for s in $seeds; do printf -- '---|'; done)" >> $out
for d in /verif/seeded/C*/; do
  id=$(basename $d); prop=${id:0:3}
  scratch=$(mktemp -d /tmp/seedmx_XXXX)
  rsync -a --exclude .git --exclude __pycache__ --exclude '*.ipynb' /repo/ $scratch/repo/
  ( cd $scratch/repo && git init -q . && git apply $d/patch.diff ) || { echo "| $id | patch does not apply |" >> $out; rm -rf $scratch; continue; }
  row="| $id |"
  for s in $seeds; do
    ( cd /verif && VERIF_FAST_FAIL=1 VERIF_SEED=$s FLODYM_SRC=$scratch/repo VERIF_OUT=$scratch/out ./check $prop --tier quick >/dev/null 2>&1 ); rc=$?
    row="$row $rc |"
  done
  echo "$row" >> $out
  rm -rf $scratch
done
cat $out
