"""Runner: facets, seeding, sharding, failure collection and shrinking, replay files,
known findings, evidence.

A *facet* is one generated check of one property.  It produces JSON-able case
descriptors (through a Hypothesis strategy, or by enumerating a finite space) and a
``run(desc)`` function that rebuilds the objects from the descriptor, evaluates the oracle
and raises :class:`Violation` (with a root-cause *bucket*) when the property is broken.
``run`` is all a replay needs, so replays never go through Hypothesis.
"""
from __future__ import annotations

import hashlib
import json
import multiprocessing as mp
import os
import sys
import time
import traceback
from collections import Counter

from . import env
from .env import HarnessError

PROPS: dict[str, "Prop"] = {}


class Violation(AssertionError):
    def __init__(self, bucket: str, msg: str = ""):
        super().__init__(f"[{bucket}] {msg}")
        self.bucket = bucket
        self.msg = msg


class Discard(Exception):
    """Case lies outside the asserted domain (counted, never a verdict)."""

    def __init__(self, why: str):
        super().__init__(why)
        self.why = why


def require(cond, bucket, msg=""):
    if not cond:
        raise Violation(bucket, msg if isinstance(msg, str) else str(msg))


class Facet:
    """Base class.  Subclasses set name, quick/thorough example counts and implement
    strategy() or enumerate(), and run()."""

    name = "facet"
    examples = {"quick": 200, "thorough": 2000}
    shards = {"quick": 4, "thorough": 16}
    exhaustive = False  # enumerate() covers a finite space completely
    rule = ""
    tiers = ("quick", "thorough")  # tiers in which the facet runs

    def strategy(self, tier):
        return None

    def enumerate(self, tier):
        return None

    def run(self, desc) -> dict:
        raise NotImplementedError


class Prop:
    def __init__(self, pid, level, rule, facets, assumptions=()):
        self.pid = pid
        self.level = level
        self.rule = rule
        self.facets = {f.name: f for f in facets}
        self.assumptions = list(assumptions)
        PROPS[pid] = self


# --------------------------------------------------------------------------- utilities


def canon(desc) -> str:
    return json.dumps(desc, sort_keys=True, default=str, separators=(",", ":"))


def fingerprint(desc) -> str:
    return hashlib.sha1(canon(desc).encode()).hexdigest()[:16]


def derive_seed(*parts) -> int:
    h = hashlib.sha256("/".join(str(p) for p in parts).encode()).digest()
    return int.from_bytes(h[:8], "big")


def slug(s: str) -> str:
    out = "".join(c if c.isalnum() else "-" for c in s)
    while "--" in out:
        out = out.replace("--", "-")
    return out.strip("-")[:80] or "x"


def _has_flodym_frame(exc) -> str | None:
    """innermost flodym frame 'file:function' of the traceback, or None."""
    tb = traceback.extract_tb(exc.__traceback__)
    hit = None
    for fr in tb:
        if os.path.abspath(fr.filename).startswith(env.FLODYM_PKG_DIR):
            hit = f"{os.path.basename(fr.filename)}:{fr.name}"
    return hit


def classify_exception(e) -> Violation | None:
    """An exception that escapes run() and passed through flodym code is an unexpected
    failure of the code under test; anything else is a harness error."""
    where = _has_flodym_frame(e)
    if where is None and type(e).__name__ == "ValidationError" and hasattr(e, "title"):
        # pydantic runs the library's validators from its compiled core, so the validator's
        # frames are not in the traceback; the title names the model being built
        import flodym

        if hasattr(flodym, str(e.title)) or any(hasattr(getattr(flodym, m, None), str(e.title)) for m in ("export", "lifetime_models", "stocks")):
            where = f"validation:{e.title}"
    if where is None:
        return None
    v = Violation(f"unexpected-{type(e).__name__}@{where}", f"{type(e).__name__}: {e}"[:400])
    v.__cause__ = e
    return v


# ------------------------------------------------------------------------ known findings


def load_known(path=None):
    """Lines 'open: property=<id> facet=<f> bucket=<b> <what>' suppress exactly that
    bucket; lines 'fixed: property=<id> <commit> <what>' suppress nothing."""
    path = path or os.path.join(env.VERIF, "known_findings.txt")
    opens = []
    if os.path.exists(path):
        for line in open(path):
            line = line.strip()
            if not line.startswith("open:"):
                continue
            fields = dict(tok.split("=", 1) for tok in line.split()[1:4] if "=" in tok)
            what = " ".join(line.split()[4:])
            opens.append(
                dict(
                    property=fields.get("property"),
                    facet=fields.get("facet"),
                    bucket=fields.get("bucket"),
                    what=what,
                )
            )
    return opens


# ---------------------------------------------------------------------------- one shard


class ShardStats:
    def __init__(self):
        self.evals = 0
        self.discards = Counter()
        self.nontrivial = set()
        self.classes = Counter()
        self.samples = []
        self.excluded = Counter()
        self.last = None
        self.first_fail = None  # (bucket, msg, descriptor) of the first violation raised in this shard


def _make_body(facet, stats, suppressed):
    def body(desc):
        stats.last = desc
        try:
            info = facet.run(desc) or {}
        except Violation as v:
            if v.bucket in suppressed:
                stats.excluded[v.bucket] += 1
                stats.evals += 1
                return
            if stats.first_fail is None:
                stats.first_fail = (v.bucket, v.msg, desc)
            raise
        except Discard as d:
            stats.discards[d.why] += 1
            return
        except HarnessError:
            raise
        except Exception as e:
            v = classify_exception(e)
            if v is None:
                raise HarnessError(
                    f"harness exception in facet {facet.name}: {type(e).__name__}: {e}\n"
                    + "".join(traceback.format_exception(e))
                ) from e
            if v.bucket in suppressed:
                stats.excluded[v.bucket] += 1
                stats.evals += 1
                return
            if stats.first_fail is None:
                stats.first_fail = (v.bucket, v.msg, desc)
            raise v
        stats.evals += 1
        for c in info.get("classes", ()):
            stats.classes[c] += 1
        if info.get("nontrivial"):
            fp = fingerprint(info.get("key", desc))
            if fp not in stats.nontrivial:
                stats.nontrivial.add(fp)
                if len(stats.samples) < 3:
                    stats.samples.append(desc)

    return body


def run_shard(args):
    pid, facet_name, tier, seed, shard, nshards, suppressed, shrink = args
    try:
        return _run_shard(pid, facet_name, tier, seed, shard, nshards, set(suppressed), shrink)
    except HarnessError as e:
        return {"harness_error": str(e), "facet": facet_name, "shard": shard}
    except BaseException as e:  # pragma: no cover
        return {
            "harness_error": "".join(traceback.format_exception(e)),
            "facet": facet_name,
            "shard": shard,
        }


def _run_shard(pid, facet_name, tier, seed, shard, nshards, suppressed, shrink):
    load_props([pid])
    prop = PROPS[pid]
    facet = prop.facets[facet_name]
    stats = ShardStats()
    body = _make_body(facet, stats, suppressed)
    failure = None
    t0 = time.time()

    if hasattr(facet, "external"):
        # a campaign driven by another engine (atheris): returns the same record as a shard
        rec = facet.external(tier, seed, shard, nshards, suppressed)
        rec.update(facet=facet_name, shard=shard, wall=time.time() - t0)
        return rec

    enum = facet.enumerate(tier)
    if enum is not None:
        best = None
        for i, desc in enumerate(enum):
            if i % nshards != shard:
                continue
            try:
                body(desc)
            except Violation as v:
                size = len(canon(desc))
                if best is None or size < best[0]:
                    best = (size, v.bucket, v.msg, desc)
        if best is not None:
            failure = {"bucket": best[1], "message": best[2], "descriptor": best[3]}
    else:
        import hypothesis
        from hypothesis import HealthCheck, Phase, given, settings

        n_total = facet.examples[tier]
        n = max(1, n_total // nshards)
        phases = [Phase.generate, Phase.shrink] if shrink else [Phase.generate]
        sett = settings(
            max_examples=n,
            database=None,
            deadline=None,
            derandomize=False,
            report_multiple_bugs=False,
            phases=phases,
            suppress_health_check=list(HealthCheck),
            print_blob=False,
        )
        test = hypothesis.seed(derive_seed(seed, pid, facet_name, shard))(
            sett(given(facet.strategy(tier))(body))
        )
        try:
            test()
        except Violation as v:
            failure = {"bucket": v.bucket, "message": v.msg, "descriptor": stats.last}
        except HarnessError:
            raise
        except Exception as e:
            flaky = type(e).__name__ in ("Flaky", "FlakyFailure", "FlakyReplay")
            if flaky and stats.first_fail is not None:
                # the same generated input violated the property once and behaved differently when Hypothesis
                # repeated it in this process: the outcome depends on state left behind by earlier operations.
                # That is a violation in its own right (the first failing input is reported; replayed alone in a
                # fresh process it may pass).
                b, m, d0 = stats.first_fail
                failure = {"bucket": b, "message": m + " [not repeatable within the process: depends on state left by earlier cases]", "descriptor": d0}
            else:
                # Hypothesis' own errors (FailedHealthCheck, Unsatisfiable ...)
                raise HarnessError(
                    f"facet {facet_name}: {type(e).__name__}: {e}\n"
                    + "".join(traceback.format_exception(e))
                )
    return {
        "facet": facet_name,
        "shard": shard,
        "evals": stats.evals,
        "discards": dict(stats.discards),
        "nontrivial": sorted(stats.nontrivial),
        "classes": dict(stats.classes),
        "samples": stats.samples,
        "excluded": dict(stats.excluded),
        "failure": failure,
        "wall": time.time() - t0,
    }


# ------------------------------------------------------------------------------- driver


def load_props(pids=None):
    import importlib
    import pkgutil

    import props

    for m in pkgutil.iter_modules(props.__path__):
        pid = m.name.split("_")[0].upper()
        if pids is not None and pid not in pids:
            continue
        if pid in PROPS:
            continue
        importlib.import_module(f"props.{m.name}")


def replay_file(path, quiet=False):
    """Re-run one saved case without Hypothesis.  Returns (ok, bucket, message)."""
    rec = json.load(open(path))
    pid = rec["property"]
    load_props([pid])
    facet = PROPS[pid].facets[rec["facet"]]
    try:
        facet.run(rec["descriptor"])
    except Violation as v:
        return False, v.bucket, v.msg
    except Discard as d:
        return True, None, f"discarded: {d.why}"
    except HarnessError:
        raise
    except Exception as e:
        v = classify_exception(e)
        if v is None:
            raise HarnessError("".join(traceback.format_exception(e)))
        return False, v.bucket, v.msg
    return True, None, ""


def write_evidence(pid, tier, seed, level, coverage, assumptions, wall, violations):
    ev = {
        "property_id": pid,
        "tier": tier,
        "seed": int(seed),
        "level": level,
        "coverage": coverage,
        "assumptions": assumptions,
        "wall_s": round(wall, 2),
        "violations": int(violations),
    }
    out = os.environ.get("VERIF_OUT", env.VERIF)
    os.makedirs(os.path.join(out, "evidence"), exist_ok=True)
    path = os.path.join(out, "evidence", f"{pid}.json")
    tmp = path + ".tmp"
    with open(tmp, "w") as f:
        json.dump(ev, f, indent=1, default=str)
    os.replace(tmp, path)
    return path


# VERIF_FAST_FAIL=1: verdict only (used by tools/seed_matrix.sh) - failures are neither shrunk nor searched behind
FAST_FAIL = os.environ.get("VERIF_FAST_FAIL") == "1"


def check_property(pid, tier, seed, only_facets=None, procs=16, max_rounds=4):
    """Run every facet of a property; returns exit code."""
    t0 = time.time()
    env.import_flodym()
    load_props([pid])
    if pid not in PROPS:
        raise HarnessError(f"no check registered for {pid}")
    prop = PROPS[pid]
    known_open = [k for k in load_known() if k["property"] == pid]
    open_buckets = {(k["facet"], k["bucket"]) for k in known_open}

    violations = []  # (bucket, message, replay path)
    known_lines = []

    # 1. regression tier: committed replays of this property
    rdir = os.path.join(env.VERIF, "replays", pid)
    n_replays = 0
    if os.path.isdir(rdir):
        for fn in sorted(os.listdir(rdir)):
            if not fn.endswith(".json"):
                continue
            path = os.path.join(rdir, fn)
            n_replays += 1
            ok, bucket, msg = replay_file(path)
            if not ok:
                rec = json.load(open(path))
                if (rec["facet"], bucket) in open_buckets:
                    continue  # reported below as KNOWN-FINDING
                violations.append((bucket, msg, path))

    # 2. generated search, facet by facet, collect-then-continue over buckets
    facets = [f for f in prop.facets.values() if (not only_facets or f.name in only_facets) and tier in f.tiers]
    per_facet = {}
    all_nontrivial = set()
    classes = Counter()
    excluded = Counter()
    discards = Counter()
    samples = []
    evals = 0
    exhaustive_facets = []
    ctx = mp.get_context("fork")
    found_dir = os.path.join(os.environ.get("VERIF_OUT", env.VERIF), "replays", pid, "found")
    harness_errors = []

    with ctx.Pool(processes=procs) as pool:
        pending = {}
        suppressed = {
            f.name: {b for (fn, b) in open_buckets if fn == f.name or fn in (None, "*")}
            for f in facets
        }
        rounds = {f.name: 0 for f in facets}
        todo = list(facets)
        while todo:
            jobs = []
            for f in todo:
                ns = f.shards[tier]
                for s in range(ns):
                    jobs.append(
                        (pid, f.name, tier, seed, s, ns, sorted(suppressed[f.name]), not FAST_FAIL)
                    )
            results = pool.map(run_shard, jobs, chunksize=1)
            todo = []
            by_facet = {}
            for r in results:
                if "harness_error" in r:
                    harness_errors.append(r)
                    continue
                by_facet.setdefault(r["facet"], []).append(r)
            for fname, rs in by_facet.items():
                f = prop.facets[fname]
                new_fail = {}
                for r in rs:
                    if r["failure"]:
                        b = r["failure"]["bucket"]
                        cur = new_fail.get(b)
                        if cur is None or len(canon(r["failure"]["descriptor"])) < len(
                            canon(cur["descriptor"])
                        ):
                            new_fail[b] = r["failure"]
                if new_fail and rounds[fname] < max_rounds:
                    for b, fl in new_fail.items():
                        os.makedirs(found_dir, exist_ok=True)
                        path = os.path.join(found_dir, f"{fname}__{slug(b)}.json")
                        with open(path, "w") as fh:
                            json.dump(
                                {
                                    "property": pid,
                                    "facet": fname,
                                    "bucket": b,
                                    "message": fl["message"],
                                    "descriptor": fl["descriptor"],
                                    "seed": int(seed),
                                    "tier": tier,
                                },
                                fh,
                                indent=1,
                                default=str,
                            )
                        violations.append((b, fl["message"], path))
                        suppressed[fname].add(b)
                    rounds[fname] += 1
                    if not FAST_FAIL:  # (fast mode: verdict only, no second round behind the buckets found)
                        todo.append(f)  # search on behind the buckets found so far
                        continue
                elif new_fail:
                    for b, fl in new_fail.items():
                        violations.append((b, fl["message"], "(round limit reached)"))
                # final statistics for this facet (last round only)
                fe = sum(r["evals"] for r in rs)
                fn_ = set()
                for r in rs:
                    fn_.update(r["nontrivial"])
                    classes.update({f"{fname}:{k}": v for k, v in r["classes"].items()})
                    excluded.update(r["excluded"])
                    discards.update({f"{fname}:{k}": v for k, v in r["discards"].items()})
                    for smp in r["samples"]:
                        if sum(1 for s in samples if s["facet"] == fname) < 2:
                            samples.append({"facet": fname, "case": smp})
                per_facet[fname] = {
                    "evaluations": fe,
                    "distinct_nontrivial": len(fn_),
                    "exhaustive": bool(f.exhaustive),
                    "wall_s": round(max(r["wall"] for r in rs), 2),
                }
                if f.exhaustive:
                    exhaustive_facets.append(fname)
                evals += fe
                all_nontrivial.update(f"{fname}:{x}" for x in fn_)

    if harness_errors:
        for h in harness_errors[:3]:
            print(f"HARNESS-ERROR facet={h.get('facet')} shard={h.get('shard')}\n{h['harness_error']}")
        return 2

    # known findings: print one line each if its bucket was actually hit or its replay still fails
    for k in known_open:
        print(f"KNOWN-FINDING: property={pid} {k['what']} (facet={k['facet']} bucket={k['bucket']})")

    coverage = {
        "evaluations": evals + n_replays,
        "distinct_nontrivial": len(all_nontrivial),
        "rule": prop.rule,
        "samples": samples[:12],
        "facets": per_facet,
        "class_distribution": dict(sorted(classes.items())),
        "discarded_outside_domain": dict(discards),
        "excluded_known": dict(excluded),
        "replays_run": n_replays,
        "exhaustive": bool(exhaustive_facets) and len(exhaustive_facets) == len(facets),
        "exhaustive_facets": exhaustive_facets,
        "violating_buckets": [v[0] for v in violations],
    }
    wall = time.time() - t0
    path = write_evidence(pid, tier, seed, prop.level, coverage, prop.assumptions, wall, len(violations))
    try:
        validate_evidence(path)
    except Exception as e:
        print(f"HARNESS-ERROR evidence does not validate: {e}")
        return 2
    for b, msg, rp in violations:
        print(f"VIOLATION property={pid} replay={rp}")
        print(f"  bucket={b}: {msg[:300]}")
    print(
        f"{pid} {tier} seed={seed}: {evals} evaluations, {len(all_nontrivial)} distinct non-trivial, "
        f"{n_replays} replays, {len(violations)} violations, {wall:.1f}s"
    )
    return 1 if violations else 0


def validate_evidence(path):
    try:
        import jsonschema
    except ImportError:
        return
    schema_path = "/root/.vp/EVIDENCE.schema.json"
    if not os.path.exists(schema_path):
        schema_path = os.path.join(env.VERIF, "vlib", "EVIDENCE.schema.json")
    if not os.path.exists(schema_path):
        return
    jsonschema.validate(json.load(open(path)), json.load(open(schema_path)))
