"""Reference model of labelled arrays: plain dicts and loops.

An MArr maps label tuples (one item per dimension, in ``letters`` order) to values.  Nothing
here uses einsum subscripts, numpy advanced indexing or pandas - the mechanisms the
properties are anchored in - so agreement with flodym is agreement between two
independent routes.  Values may be ints, floats, Fractions or sympy expressions.
"""
from __future__ import annotations

import itertools
import math
from fractions import Fraction


class MArr:
    def __init__(self, letters, items, data):
        self.letters = tuple(letters)
        self.items = {l: list(items[l]) for l in self.letters}
        self.data = data

    # ---- construction -------------------------------------------------------------
    @classmethod
    def from_fn(cls, letters, items, fn):
        letters = tuple(letters)
        data = {}
        for key in itertools.product(*[items[l] for l in letters]):
            data[key] = fn(dict(zip(letters, key)))
        return cls(letters, items, data)

    @classmethod
    def from_flodym(cls, arr):
        """Read a FlodymArray through its public dims / values only."""
        import numpy as np

        letters = tuple(arr.dims.letters)
        items = {d.letter: list(d.items) for d in arr.dims}
        vals = np.asarray(arr.values)
        shape = tuple(len(items[l]) for l in letters)
        if vals.shape != shape:
            raise ValueError(f"values shape {vals.shape} != dims shape {shape}")
        data = {}
        for idx in np.ndindex(*shape):
            key = tuple(items[l][i] for l, i in zip(letters, idx))
            v = vals[idx]
            data[key] = v.item() if hasattr(v, "item") and vals.dtype != object else v
        return cls(letters, items, data)

    def keys(self):
        return itertools.product(*[self.items[l] for l in self.letters])

    def get(self, labels: dict):
        return self.data[tuple(labels[l] for l in self.letters)]

    def shape(self):
        return tuple(len(self.items[l]) for l in self.letters)

    # ---- operations ---------------------------------------------------------------
    def reorder(self, letters):
        letters = tuple(letters)
        assert sorted(letters) == sorted(self.letters)
        return MArr.from_fn(letters, self.items, lambda lab: self.get(lab))

    def sum_to(self, letters):
        letters = tuple(letters)
        others = [l for l in self.letters if l not in letters]

        def f(lab):
            tot = 0
            for combo in itertools.product(*[self.items[l] for l in others]):
                full = dict(lab)
                full.update(zip(others, combo))
                tot = tot + self.get(full)
            return tot

        return MArr.from_fn(letters, self.items, f)

    def cast_to(self, letters, items):
        assert all(l in letters for l in self.letters)
        return MArr.from_fn(letters, items, lambda lab: self.get(lab))

    def map(self, fn):
        return MArr(self.letters, self.items, {k: fn(v) for k, v in self.data.items()})

    def cumsum(self, letter):
        its = self.items[letter]

        def f(lab):
            tot = 0
            for it in its[: its.index(lab[letter]) + 1]:
                l2 = dict(lab)
                l2[letter] = it
                tot = tot + self.get(l2)
            return tot

        return MArr.from_fn(self.letters, self.items, f)

    def total(self):
        tot = 0
        for v in self.data.values():
            tot = tot + v
        return tot


def combine_intersection(x: MArr, y: MArr, op):
    """x (op) y for + - min max: both summed to the common letters, in x's order."""
    common = tuple(l for l in x.letters if l in y.letters)
    xs, ys = x.sum_to(common), y.sum_to(common)
    return MArr.from_fn(common, x.items, lambda lab: op(xs.get(lab), ys.get(lab)))


def combine_union(x: MArr, y: MArr, op):
    """x (op) y for * /: union of letters, x's first then y's new ones."""
    letters = x.letters + tuple(l for l in y.letters if l not in x.letters)
    items = dict(y.items)
    items.update(x.items)
    return MArr.from_fn(letters, items, lambda lab: op(x.get(lab), y.get(lab)))


# ------------------------------------------------------------------------- comparison


def eq_exact(a, b):
    return a == b


def make_eq_float(rel=1e-9, floor=1.0):
    def eq(a, b, scale=None):
        a = float(a)
        b = float(b)
        if math.isnan(a) or math.isnan(b):
            return math.isnan(a) and math.isnan(b)
        if math.isinf(a) or math.isinf(b):
            return a == b
        s = max(floor, abs(a), abs(b), scale or 0.0)
        return abs(a - b) <= rel * s

    return eq


def eq_sym(a, b):
    import sympy

    d = sympy.sympify(a) - sympy.sympify(b)
    if d == 0:
        return True
    d = sympy.nsimplify(d, rational=True) if d.has(sympy.Float) else d
    return sympy.cancel(sympy.together(d)) == 0


def diff(expected: MArr, got: MArr, eq=eq_exact, check_order=True):
    """None if equal, else a short description of the first difference."""
    if check_order and expected.letters != got.letters:
        return f"dimension order {got.letters} != expected {expected.letters}"
    if sorted(expected.letters) != sorted(got.letters):
        return f"dimensions {got.letters} != expected {expected.letters}"
    for l in expected.letters:
        if list(expected.items[l]) != list(got.items[l]):
            return f"items of {l}: {got.items[l]} != expected {expected.items[l]}"
    for key in expected.keys():
        lab = dict(zip(expected.letters, key))
        e, g = expected.get(lab), got.get(lab)
        if not eq(e, g):
            return f"entry {lab}: got {g!r}, expected {e!r}"
    return None


def to_fraction(s):
    if isinstance(s, str):
        return Fraction(s)
    return Fraction(s)
