"""Reading DataFrames produced by to_df back into {label-tuple: value} with plain loops."""
from __future__ import annotations


def df_records(df, dim_names, wide_dim_name=None, wide_items=None, value_col="value"):
    """-> list of (dict name->item, value); one entry per cell of the frame."""
    if any(n is not None for n in df.index.names):
        df = df.reset_index()
    out = []
    cols = list(df.columns)
    for rec in df.to_dict("records"):
        lab = {n: rec[n] for n in dim_names if n in rec}
        if wide_dim_name is None:
            out.append((lab, rec[value_col]))
        else:
            for it in wide_items:
                if it in rec:
                    l2 = dict(lab)
                    l2[wide_dim_name] = it
                    out.append((l2, rec[it]))
    return out


def records_to_map(records, dim_names):
    m = {}
    dup = []
    for lab, v in records:
        key = tuple(_norm(lab.get(n)) for n in dim_names)
        if key in m:
            dup.append(key)
        m[key] = float(v)
    return m, dup


def _norm(x):
    try:
        import numpy as np

        if isinstance(x, np.generic):
            return x.item()
    except Exception:
        pass
    return x
