"""Generators and builders for time grids, lifetime models and stocks (C03, C08-C10, C16, C17).

Descriptor of a stock configuration:
  {"grid": [t0, t1, ...],                       strictly increasing ints or floats
   "extra": [ {letter,name,items,dtype}, ... ], 0-2 non-time dimensions
   "cls": "simple"|"idsm"|"sdsm_manual"|"sdsm_lapack",
   "lt": {"cls": "NormalLifetime", "inflow_at": "middle", "n_pts": 1,
          "prms": {"mean": {"kind":"scalar","v":3.0} | {"kind":"array","letters":[..],"vals":[..]}}},
   "driver": [...flat values over (t, extra...) in C order...], "outflow": [...] (simple only)}
"""
from __future__ import annotations

import itertools
import math

import numpy as np
from hypothesis import strategies as st

from . import build, gen
from .build import fd

LT_PRMS = {
    "FixedLifetime": ["mean"],
    "NormalLifetime": ["mean", "std"],
    "FoldedNormalLifetime": ["mean", "std"],
    "LogNormalLifetime": ["mean", "std"],
    "WeibullLifetime": ["weibull_shape", "weibull_scale"],
}


# ------------------------------------------------------------------------- time grids


def documented_dt(items):
    """Interval lengths per howto 06: bounds at the mid-points between consecutive items; the
    first and last interval take the length of their neighbour."""
    t = [float(x) for x in items]
    n = len(t)
    dt = [None] * n
    for i in range(1, n - 1):
        dt[i] = (t[i + 1] - t[i - 1]) / 2.0
    dt[0] = dt[1]
    dt[n - 1] = dt[n - 2]
    return dt


def documented_bounds(items):
    t = [float(x) for x in items]
    mids = [(a + b) / 2.0 for a, b in zip(t[:-1], t[1:])]
    dt = documented_dt(items)
    return [mids[0] - dt[0]] + mids + [mids[-1] + dt[-1]]


def grid_kind(items):
    d = [b - a for a, b in zip(items[:-1], items[1:])]
    if all(abs(x - d[0]) < 1e-12 for x in d):
        return "unit" if abs(d[0] - 1) < 1e-12 else "const-nonunit"
    return "uneven"


@st.composite
def grids(draw, min_n=3, max_n=8, long_grid=0):
    n = draw(st.integers(min_n, max_n))
    if long_grid and draw(st.integers(0, long_grid - 1)) == 0:
        n = draw(st.sampled_from([16, 17, 25, 40]))  # a realistic number of years, beyond any small-size threshold
    kind = draw(st.sampled_from(["unit", "const", "uneven", "uneven", "uneven-float", "nearly-even"]))
    start = draw(st.sampled_from([0, 1, 1900, 2000, 2015, -5]))
    if kind == "nearly-even":
        # sub-annual steps written as decimal years with two decimals (2020.0, 2020.08, 2020.17, ...), or a regular
        # grid with one label off by a hundredth: uneven, but only slightly so relative to the size of the labels
        step = draw(st.sampled_from([1.0, 0.25, 1.0 / 12.0, 0.1]))
        out = [round(float(start) + i * step, 2) for i in range(n)]
        if draw(st.booleans()):
            k = draw(st.integers(0, n - 1))
            out[k] = round(out[k] + draw(st.sampled_from([0.01, -0.01, 0.02])), 2)
        if all(b > a for a, b in zip(out[:-1], out[1:])):
            return out
        kind = "uneven-float"
    if kind == "unit":
        return [start + i for i in range(n)]
    if kind == "const":
        k = draw(st.sampled_from([2, 5, 10]))
        return [start + k * i for i in range(n)]
    if kind == "uneven":
        incs = [draw(st.sampled_from([1, 1, 2, 3, 5, 10])) for _ in range(n - 1)]
    else:
        incs = [draw(st.sampled_from([0.5, 1.0, 1.5, 2.5, 4.0])) for _ in range(n - 1)]
        start = float(start) + draw(st.sampled_from([0.0, 0.25]))
    out = [start]
    for i in incs:
        out.append(out[-1] + i)
    return out


def time_dim(grid):
    is_int = all(isinstance(x, int) for x in grid)
    return {"letter": "t", "name": "Time", "items": list(grid), "dtype": "int" if is_int else "float"}


def universe_of(cfg):
    return {"dims": [time_dim(cfg["grid"])] + list(cfg.get("extra", []))}


@st.composite
def extras(draw, max_extra=2, max_len=3):
    n = draw(st.integers(0, max_extra))
    letters = draw(st.permutations(list("abc")))[:n]
    dims = []
    for k, l in enumerate(letters):
        ln = draw(st.integers(1, max_len))
        kind = draw(st.sampled_from(["str", "int"]))
        dims.append({"letter": l, "name": gen.NAMES[l], "items": gen.items_for(l, k, ln, kind), "dtype": gen.kind_dtype(kind)})
    return dims


# ---------------------------------------------------------------------- lifetime models


@st.composite
def lifetime_descs(draw, U, classes=None, well_conditioned=False):
    cls = draw(st.sampled_from(list(classes or LT_PRMS)))
    grid = U["dims"][0]["items"]
    mean_dt = (grid[-1] - grid[0]) / (len(grid) - 1)
    letters = gen.uletters(U)
    prms = {}
    for name in LT_PRMS[cls]:
        if name in ("mean", "weibull_scale"):
            lo, hi = (1.2, 6.0) if well_conditioned else (0.3, 6.0)
            el = st.floats(lo * mean_dt, hi * mean_dt)
        elif name == "std":
            el = st.floats(0.15 * mean_dt, 2.5 * mean_dt)
        else:
            el = st.floats(0.6, 4.0)
        if cls == "FixedLifetime" and name == "mean" and draw(st.booleans()):
            # lifetimes that coincide exactly with possible ages (integers and half-integers of the grid spacing)
            el = st.sampled_from([0.0, 0.5, 1.0, 1.5, 2.0, 2.5, 3.0, 4.0, 5.0, 7.5, 10.0])
        kind = draw(st.sampled_from(["scalar", "scalar", "array", "array", "cohort", "drift"]))
        if kind == "scalar":
            prms[name] = {"kind": "scalar", "v": draw(el)}
        elif kind == "drift" and len(letters) > 1:
            # labels share the first cohort's value and drift apart over the cohorts
            pl = ["t"] + draw(gen.ordered_subtuple(letters[1:], min_size=1))
            base = draw(el)
            nlab = gen._size(U, pl[1:])
            slopes = draw(st.lists(st.sampled_from([0.0, 0.05, 0.1, 0.2, -0.03]), min_size=nlab, max_size=nlab))
            k_ = 7.0 / max(7, len(grid) - 1)  # total drift over a long grid stays what it is over 8 cohorts (parameters stay admissible)
            vals = [base * (1 + s_ * ti * k_) for ti in range(len(grid)) for s_ in slopes]
            prms[name] = {"kind": "array", "letters": pl, "vals": vals}
        else:
            if kind == "drift":
                kind = "cohort"
            if kind == "cohort":
                pl = ["t"] + draw(gen.ordered_subtuple(letters[1:]))
                pl = list(draw(st.permutations(pl)))
            else:
                pl = draw(gen.ordered_subtuple(letters[1:], min_size=min(1, len(letters) - 1)))
            n = gen._size(U, pl)
            prms[name] = {"kind": "array", "letters": pl, "vals": draw(st.lists(el, min_size=n, max_size=n))}
            if draw(st.integers(0, 5)) == 0:
                # whole-number parameters handed over as an integer-typed array (lifetimes in whole years)
                prms[name]["vals"] = [float(max(1, round(v))) for v in prms[name]["vals"]]
                prms[name]["int_dtype"] = True
    n_pts = draw(st.sampled_from([1, 1, 1, 2, 3, 4, 5, 6, 7, 8, 9, 10]))
    return {"cls": cls, "prms": prms, "inflow_at": draw(st.sampled_from(["start", "middle", "end"])), "n_pts": n_pts}


def prm_value_fn(U, p):
    """label dict (all model dims) -> parameter value, from the descriptor alone."""
    if p["kind"] == "scalar":
        return lambda lab: float(p["v"])
    f = build.value_fn(U, {"letters": p["letters"], "mode": "float", "vals": p["vals"]})
    return lambda lab: f({l: lab[l] for l in p["letters"]})


def build_prm(U, p):
    if p["kind"] == "scalar":
        return float(p["v"])
    a = build.array(U, {"letters": p["letters"], "mode": "float", "vals": p["vals"]})
    if p.get("int_dtype"):
        a = fd.FlodymArray(dims=a.dims, values=np.asarray(a.values).astype(np.int64))
    return a


def build_lifetime(U, lt, letters=None):
    letters = letters or gen.uletters(U)
    cls = getattr(fd, lt["cls"])
    kw = {n: build_prm(U, p) for n, p in lt["prms"].items()}
    return cls(dims=build.dimset(U, letters), time_letter="t", inflow_at=lt.get("inflow_at", "middle"), n_pts_per_interval=lt.get("n_pts", 1), **kw)


def lt_varies(lt):
    return any(p["kind"] == "array" for p in lt["prms"].values())


# ------------------------------------------------------------------------------- stocks


@st.composite
def stock_configs(draw, classes=("simple", "idsm", "sdsm_manual", "sdsm_lapack"), max_n=8, well_conditioned=False, signed=False, lt_classes=None, max_extra=2, long_grid=0):
    grid = draw(grids(max_n=max_n, long_grid=long_grid))
    cfg = {"grid": grid, "extra": draw(extras(max_extra=max_extra)), "cls": draw(st.sampled_from(list(classes)))}
    U = universe_of(cfg)
    n = gen._size(U, gen.uletters(U))
    pos = st.one_of(st.sampled_from([0.0, 1.0, 10.0]), st.floats(1e-6, 100.0))
    sgn = st.one_of(st.sampled_from([0.0, 1.0, -1.0]), st.floats(1e-6, 100.0), st.floats(-100.0, -1e-6))
    if cfg["cls"] == "simple":
        cfg["driver"] = draw(st.lists(sgn if signed else pos, min_size=n, max_size=n))
        cfg["outflow"] = draw(st.lists(sgn if signed else pos, min_size=n, max_size=n))
    else:
        cfg["lt"] = draw(lifetime_descs(U, classes=lt_classes, well_conditioned=well_conditioned or cfg["cls"].startswith("sdsm")))
        el = sgn if (signed or cfg["cls"].startswith("sdsm")) else pos
        cfg["driver"] = draw(st.lists(el, min_size=n, max_size=n))
        cfg["lt_via"] = draw(st.sampled_from(["instance", "instance", "class"]))
        if draw(st.integers(0, 3)) == 0:
            # re-parameterise and recompute on the same object (as in a scenario loop)
            cfg["reprm"] = draw(lifetime_descs(U, classes=(cfg["lt"]["cls"],), well_conditioned=True))["prms"]
    cfg["mem"] = draw(st.sampled_from([None, None, None, "F", "T", "S"]))
    if cfg["cls"] != "simple":
        cfg["given_results"] = draw(st.sampled_from([None, None, None, "F", "T", "C"]))
    # flows in any unit: tiny and huge magnitudes are as legitimate as ordinary ones
    cfg["scale"] = draw(st.sampled_from([1.0, 1.0, 1.0, 1e-9, 1e-4, 1e6]))
    if draw(st.integers(0, 5)) == 0:
        # counts: whole numbers stored with an integer dtype (legitimate driver arrays)
        cfg["int_driver"] = True
        cfg["scale"] = 1.0
        cfg["driver"] = [float(round(v)) for v in cfg["driver"]]
        if "outflow" in cfg:
            cfg["outflow"] = [float(round(v)) for v in cfg["outflow"]]
    return cfg


def driver_values(cfg, key="driver"):
    return np.array(cfg[key], dtype=float) * float(cfg.get("scale", 1.0))


def driver_array(cfg, vals=None, cls=None):
    U = universe_of(cfg)
    letters = gen.uletters(U)
    shape = tuple(len(d["items"]) for d in U["dims"])
    v = np.array(vals if vals is not None else driver_values(cfg), dtype=float).reshape(shape)
    if cfg.get("int_driver") and np.all(v == np.round(v)) and np.all(np.abs(v) < 2**40):
        v = v.astype(np.int64)
    v = build.with_memory_layout(v, cfg.get("mem"))  # data that came in another axis order (table.T, Fortran files)
    return (cls or fd.StockArray)(dims=build.dimset(U, letters), values=v)


def build_stock(cfg, driver=None, lifetime=None):
    """-> flodym stock object (not yet computed)."""
    U = universe_of(cfg)
    letters = gen.uletters(U)
    dims = build.dimset(U, letters)
    d = driver_array(cfg, driver)
    c = cfg["cls"]
    if c == "simple":
        out = driver_array(cfg, driver_values(cfg, "outflow"))
        return fd.SimpleFlowDrivenStock(dims=dims, inflow=d, outflow=out, name="s")
    via_class = lifetime is None and cfg.get("lt_via") == "class"
    lm = lifetime if lifetime is not None else (getattr(fd, cfg["lt"]["cls"]) if via_class else build_lifetime(U, cfg["lt"]))
    given = {}
    if cfg.get("given_results"):
        # the arrays the model will fill are handed in by the caller (as to_stock_type does), in the caller's memory layout
        shape = tuple(len(x["items"]) for x in U["dims"])
        mk0 = lambda: fd.StockArray(dims=dims, values=build.with_memory_layout(np.zeros(shape), cfg.get("given_results")))
        given = {"outflow": mk0(), ("stock" if c == "idsm" else "inflow"): mk0()}
    if c == "idsm":
        stock = fd.InflowDrivenDSM(dims=dims, inflow=d, lifetime_model=lm, name="s", **given)
    else:
        stock = fd.StockDrivenDSM(dims=dims, stock=d, lifetime_model=lm, solver=c.split("_")[1], name="s", **given)
    if via_class:
        # the stock was given the model CLASS and created the instance itself: settings and parameters follow
        lt = cfg["lt"]
        stock.lifetime_model.inflow_at = lt.get("inflow_at", "middle")
        stock.lifetime_model.n_pts_per_interval = lt.get("n_pts", 1)
        stock.lifetime_model.set_prms(**{n: build_prm(U, p) for n, p in lt["prms"].items()})
    return stock


def first_interval_survival(stock):
    sf = stock.lifetime_model.sf
    n = sf.shape[0]
    return min(float(np.min(sf[i, i, ...])) for i in range(n))


def cond_inf(stock):
    """max over labels of the infinity-norm condition number of the survival table."""
    sf = stock.lifetime_model.sf
    worst = 1.0
    for idx in np.ndindex(*sf.shape[2:]):
        m = sf[(slice(None), slice(None)) + idx]
        try:
            worst = max(worst, float(np.linalg.cond(m, np.inf)))
        except Exception:
            return float("inf")
    return worst
