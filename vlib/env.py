"""Environment bootstrap: import flodym from $FLODYM_SRC (default /repo), never from
anywhere else; put /verif/.deps (hypothesis, sympy, atheris from the offline wheelhouse)
behind the interpreter's own site-packages."""
import os
import sys

for _v in ("OMP_NUM_THREADS", "OPENBLAS_NUM_THREADS", "MKL_NUM_THREADS", "NUMEXPR_NUM_THREADS"):
    os.environ.setdefault(_v, "1")
os.environ.setdefault("MPLBACKEND", "Agg")

VERIF = os.path.dirname(os.path.dirname(os.path.abspath(__file__)))
FLODYM_SRC = os.path.abspath(os.environ.get("FLODYM_SRC", "/repo"))
GUARD = "FLODYM_VERIF"
os.environ.setdefault(GUARD, "1")

if VERIF not in sys.path:
    sys.path.insert(0, VERIF)
sys.path.insert(0, FLODYM_SRC)
for _deps in (os.path.join(VERIF, ".deps"), "/verif/.deps"):
    if os.path.isdir(_deps):
        if _deps not in sys.path:
            sys.path.append(_deps)
        break


class HarnessError(Exception):
    """Something is wrong with the checking machinery itself (exit code 2)."""


def import_flodym():
    import warnings

    warnings.filterwarnings("ignore")
    try:
        import flodym  # noqa
    except Exception as e:  # pragma: no cover
        raise HarnessError(f"cannot import flodym from {FLODYM_SRC}: {e!r}")
    where = os.path.abspath(os.path.dirname(flodym.__file__))
    if not where.startswith(FLODYM_SRC + os.sep):
        raise HarnessError(f"flodym imported from {where}, expected below {FLODYM_SRC}")
    import logging

    logging.getLogger().setLevel(logging.ERROR)
    return flodym


FLODYM_PKG_DIR = os.path.join(FLODYM_SRC, "flodym") + os.sep
