"""Descriptor -> flodym objects and -> reference-model objects.

Descriptors are plain JSON:
  universe = {"dims": [{"letter","name","items","dtype"}]}      dtype in "str","int",None
  array    = {"letters": [...storage order...], "mode": "coded"|"sym"|"frac"|"float"|"zeros",
              "vals": [...flat C-order list for frac/float...], "tag": "x"}
"""
from __future__ import annotations

import itertools
from fractions import Fraction

import numpy as np

from . import env
from .model import MArr

env.import_flodym()
import flodym as fd  # noqa: E402

_DT = {"str": str, "int": int, None: None, "float": float}


def udim(universe, letter):
    for d in universe["dims"]:
        if d["letter"] == letter:
            return d
    raise KeyError(letter)


def uitems(universe):
    return {d["letter"]: list(d["items"]) for d in universe["dims"]}


def dimension(d) -> fd.Dimension:
    return fd.Dimension(name=d["name"], letter=d["letter"], items=list(d["items"]), dtype=_DT[d.get("dtype")])


def dimset(universe, letters=None) -> fd.DimensionSet:
    if letters is None:
        letters = [d["letter"] for d in universe["dims"]]
    return fd.DimensionSet(dim_list=[dimension(udim(universe, l)) for l in letters])


def code_base(universe):
    """radix of the label code: 10 for the usual small dimensions, larger when a dimension is long"""
    return max(10, 1 + max([len(d["items"]) for d in universe["dims"]] + [0]))


_SALT = {"x": 0, "y": 1, "z": 2, "w": 3, "p": 4, "q": 5}


def value_fn(universe, adesc):
    """label dict -> value, defined by the descriptor alone."""
    letters = list(adesc["letters"])
    items = uitems(universe)
    mode = adesc.get("mode", "coded")
    tag = adesc.get("tag", "x")
    uorder = [d["letter"] for d in universe["dims"]]
    B = code_base(universe)

    if mode == "coded":
        salt = _SALT.get(tag, 7)

        def f(lab):
            code = 0
            for l in letters:
                k = uorder.index(l)
                code += (items[l].index(lab[l]) + 1) * B**k
            return float(code * (salt + 1) + salt)

        return f
    if mode == "zeros":
        return lambda lab: 0.0
    if mode == "int":
        # integer-valued entries stored with an integer dtype (e.g. counts, np.arange data)
        salt = _SALT.get(tag, 7)

        def f(lab):
            code = 0
            for l in letters:
                k = uorder.index(l)
                code += (items[l].index(lab[l]) + 1) * B**k
            return int(code * (salt + 1) + salt) - 15

        return f
    if mode == "sym":
        import sympy

        def f(lab):
            return sympy.Symbol(tag + "".join(f"_{lab[l]}" for l in sorted(letters)))

        return f
    vals = adesc["vals"]
    shape = [len(items[l]) for l in letters]

    def pos(lab):
        idx = 0
        for l, n in zip(letters, shape):
            idx = idx * n + items[l].index(lab[l])
        return idx

    if mode == "frac":
        return lambda lab: Fraction(vals[pos(lab) % len(vals)])
    if mode == "float":
        return lambda lab: float(vals[pos(lab) % len(vals)])
    raise ValueError(mode)


def ndarray_from_fn(letters, items, fn, dtype=None):
    shape = tuple(len(items[l]) for l in letters)
    out = np.empty(shape, dtype=dtype if dtype is not None else object)
    for idx in np.ndindex(*shape):
        lab = {l: items[l][i] for l, i in zip(letters, idx)}
        out[idx] = fn(lab)
    return out


def array_values(universe, adesc) -> np.ndarray:
    mode = adesc.get("mode", "coded")
    dtype = float if mode in ("coded", "float", "zeros") else (np.int64 if mode == "int" else object)
    return ndarray_from_fn(list(adesc["letters"]), uitems(universe), value_fn(universe, adesc), dtype)


def with_memory_layout(values: np.ndarray, mem) -> np.ndarray:
    """Same entries under the same indices, different memory layout: 'F' = Fortran order, 'T' =
    transposed view of a C array, 'S' = strided view into a larger buffer.  numpy results of einsum
    re-orderings have such layouts, and users pass them too."""
    if mem in (None, "C") or values.ndim < 1:
        return values
    if mem == "F":
        return np.asfortranarray(values)
    if mem == "T":
        return np.ascontiguousarray(values.T).T
    if mem == "S":
        big = np.zeros(tuple(2 * n for n in values.shape), dtype=values.dtype)
        view = big[tuple(slice(0, None, 2) for _ in values.shape)]
        view[...] = values
        return view
    raise ValueError(mem)


def array(universe, adesc, cls=None, **kw) -> fd.FlodymArray:
    cls = cls or fd.FlodymArray
    vals = with_memory_layout(array_values(universe, adesc), adesc.get("mem"))
    return cls(dims=dimset(universe, adesc["letters"]), values=vals, **kw)


def marr(universe, adesc) -> MArr:
    return MArr.from_fn(adesc["letters"], uitems(universe), value_fn(universe, adesc))


def eq_for(mode):
    from . import model

    if mode == "sym":
        return model.eq_sym
    if mode == "float":
        return model.make_eq_float()
    return model.eq_exact


def snapshot(arr):
    """Deep, comparable snapshot of a FlodymArray (values bytes, dtype, dims, name)."""
    v = arr.values
    if isinstance(v, np.ndarray):
        if v.dtype == object:
            vb = ("obj", v.shape, tuple(repr(e) for e in v.flatten()))
        else:
            vb = (str(v.dtype), v.shape, v.tobytes())
    else:
        vb = ("scalar", repr(v))
    return (
        vb,
        tuple((d.letter, d.name, tuple(d.items), d.dtype) for d in arr.dims),
        getattr(arr, "name", None),
    )


def snapshot_dims(ds):
    return tuple((d.letter, d.name, tuple(d.items), d.dtype) for d in ds)
