"""Hypothesis strategies producing JSON-able case descriptors (see build.py)."""
from __future__ import annotations

from fractions import Fraction

from hypothesis import strategies as st

LETTER_POOL = "abcdefgh"
NAMES = {
    "t": "Time",
    "a": "Alpha",
    "b": "Beta dim",
    "c": "Gamma",
    "d": "Delta dim",
    "e": "Epsilon",
    "f": "Phi dim",
    "g": "Gimel",
    "h": "Heth",
}


def items_for(letter, k, n, kind):
    """n pairwise distinct items for dimension number k; item sets of different dimensions
    are disjoint and never equal to a dimension letter or name."""
    if kind in ("int", "uint"):
        if n > 99:
            return [10000 * (k + 1) + i for i in range(n)]  # a very long dimension: keep the item sets of different dimensions disjoint
        return [100 * (k + 1) + i for i in range(n)]
    if kind == "umixed":
        # an untyped dimension may mix label types (['pre-industrial', 1950, 2000]); the library's own tests do
        if n > 99:
            return [f"{letter}{i}" if i % 2 == 0 else 10000 * (k + 1) + i for i in range(n)]
        return [f"{letter}{i}" if i % 2 == 0 else 100 * (k + 1) + i for i in range(n)]
    return [f"{letter}{i}" for i in range(n)]


def kind_dtype(kind):
    return {"str": "str", "int": "int", "ustr": None, "uint": None, "umixed": None}[kind]


@st.composite
def universes(
    draw,
    min_dims=1,
    max_dims=4,
    max_len=3,
    min_len=1,
    kinds=("str", "int", "ustr", "uint", "umixed"),
    with_time=False,
    letters=None,
    long_dim=0,
    long_sizes=(12, 16, 17, 24, 33, 48),
):
    n = draw(st.integers(min_dims, max_dims))
    if letters is None:
        pool = list(LETTER_POOL[: max(max_dims + 1, n)])
        letters = draw(st.permutations(pool))[:n]
        if with_time:
            letters = ["t"] + list(letters[: n - 1])
    else:
        letters = list(letters)[:n]
    pattern = draw(st.sampled_from(["equal", "equal", "mixed", "mixed", "different", "has1"]))
    if pattern == "equal":
        L = draw(st.integers(max(min_len, 1), max_len))
        lens = [L] * n
    else:
        lens = [draw(st.integers(min_len, max_len)) for _ in range(n)]
        if pattern == "has1" and min_len <= 1:
            lens[draw(st.integers(0, n - 1))] = 1
        if pattern == "different":
            seen = set()
            for i in range(n):
                while lens[i] in seen and lens[i] < max_len:
                    lens[i] += 1
                seen.add(lens[i])
    if long_dim and draw(st.integers(0, long_dim - 1)) == 0:
        # one long dimension (years, vintages, products): item counts beyond any small-size threshold
        lens[draw(st.integers(0, n - 1))] = draw(st.sampled_from(list(long_sizes)))
    dims = []
    zero_used = False
    for k, (l, ln) in enumerate(zip(letters, lens)):
        kind = draw(st.sampled_from(list(kinds)))
        its = items_for(l, k, ln, kind)
        if kind in ("int", "uint") and not zero_used and ln <= 99 and draw(st.integers(0, 3)) == 0:
            # labels may be falsy (0) or negative: one dimension counts from 0 (age cohorts, indices)
            zero_used = True
            off = draw(st.sampled_from([0, 0, -1]))
            its = [i + off for i in range(ln)]
        if ln > 2 and draw(st.booleans()):
            # items need not be listed in sorted order (consecutive ints in a shuffled order included);
            # one pattern keeps the smallest first and the largest last and shuffles only the interior
            if ln > 3 and draw(st.booleans()):
                its = [its[0]] + list(draw(st.permutations(its[1:-1]))) + [its[-1]]
            else:
                its = list(draw(st.permutations(its)))
        dims.append(
            {
                "letter": l,
                "name": NAMES.get(l, f"Dim {l}"),
                "items": its,
                "dtype": kind_dtype(kind),
            }
        )
    return {"dims": dims}


def uletters(universe):
    return [d["letter"] for d in universe["dims"]]


@st.composite
def ordered_subtuple(draw, letters, min_size=0, max_size=None):
    letters = list(letters)
    mask = [draw(st.booleans()) for _ in letters]
    sub = [l for l, m in zip(letters, mask) if m]
    while len(sub) < min_size:
        rest = [l for l in letters if l not in sub]
        sub.append(rest[draw(st.integers(0, len(rest) - 1))])
    if max_size is not None:
        sub = sub[:max_size]
    if len(sub) > 1:
        sub = list(draw(st.permutations(sub)))
    return sub


small_fracs = st.builds(
    lambda p, q: str(Fraction(p, q)), st.integers(-6, 6), st.sampled_from([1, 1, 2, 3, 4])
)
nice_floats = st.one_of(
    st.sampled_from([0.0, 1.0, -1.0, 0.5, 2.0, 1e-3, 1e3]),
    st.floats(min_value=-1e6, max_value=1e6, allow_nan=False, allow_infinity=False, allow_subnormal=False),
)
pos_floats = st.floats(min_value=1e-3, max_value=1e3, allow_nan=False, allow_infinity=False)


def _size(universe, letters):
    n = 1
    for d in universe["dims"]:
        if d["letter"] in letters:
            n *= len(d["items"])
    return n


@st.composite
def arrays(draw, universe, letters=None, modes=("coded",), tag="x", min_dims=0, elems=None, allow_int=False):
    if letters is None:
        letters = draw(ordered_subtuple(uletters(universe), min_size=min_dims))
    mode = draw(st.sampled_from(list(modes)))
    desc = {"letters": list(letters), "mode": mode, "tag": tag}
    if allow_int and mode == "coded" and draw(st.integers(0, 4)) == 0:
        desc["mode"] = mode = "int"  # integer-valued entries stored with an integer dtype (read-only uses)
    if len(letters) >= 2:
        mem = draw(st.sampled_from(["C", "C", "C", "F", "T", "S"]))
        if mem != "C":
            desc["mem"] = mem
    if mode in ("frac", "float"):
        n = _size(universe, letters)
        el = elems or (small_fracs if mode == "frac" else nice_floats)
        desc["vals"] = draw(st.lists(el, min_size=n, max_size=n))
    return desc


def is_permuted(universe, letters):
    """storage order differs from the universe's listing order"""
    order = [l for l in uletters(universe) if l in letters]
    return list(letters) != order


def has_equal_lengths(universe, letters):
    lens = [len(d["items"]) for d in universe["dims"] if d["letter"] in letters]
    return len(lens) != len(set(lens))
