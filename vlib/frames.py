"""Rendering DataFrames from logical records and a layout descriptor (C11, C12, fuzz target).

records : list of (labels: dict letter -> item, value: float or None for an empty cell)
layout  : {"wide": letter | None,              dimension spread over the columns
           "index": [letters],                 dimensions held in the (Multi)Index, rest are columns
           "header": {letter: "name"|"letter"|"junk"},   how each dimension column is identified
           "value_col": "value",
           "col_order": [ints] | None,         permutation of the non-index columns
           "drop_single": [letters]}           single-item dimensions left out of the frame
"""
from __future__ import annotations

import numpy as np
import pandas as pd

from . import build


def header_of(U, letter, style):
    d = build.udim(U, letter)
    if style == "letter":
        return letter
    if style == "junk":
        return f"col_{letter}"
    return d["name"]


def render(U, letters, records, layout, extra_columns=None, dropped_dim_columns=(), wide_header_map=None):
    """-> DataFrame.  ``letters``: the array's dimensions in storage order."""
    wide = layout.get("wide")
    hdr = {l: header_of(U, l, layout.get("header", {}).get(l, "name")) for l in letters}
    drop = set(layout.get("drop_single", [])) | set(dropped_dim_columns)
    dimcols = [l for l in letters if l != wide and l not in drop]
    vcol = layout.get("value_col", "value")
    rows = []
    if wide is None:
        for lab, v in records:
            r = {hdr[l]: lab[l] for l in dimcols}
            r[vcol] = np.nan if v is None else v
            rows.append(r)
        cols = [hdr[l] for l in dimcols] + [vcol]
    else:
        # records of a wide frame are grouped into rows by a row id carried in the record
        witems = list(build.udim(U, wide)["items"])
        present = [it for it in witems if it not in layout.get("wide_dropped", [])]
        by_row = {}
        order = []
        for lab, v in records:
            rid = lab.get("__row__", tuple(lab[l] for l in letters if l != wide))
            if rid not in by_row:
                by_row[rid] = {hdr[l]: lab[l] for l in dimcols}
                order.append(rid)
            by_row[rid][lab[wide]] = np.nan if v is None else v
        rows = [by_row[r] for r in order]
        cols = [hdr[l] for l in dimcols] + present
    df = pd.DataFrame(rows, columns=cols)
    if wide is not None and wide_header_map:
        df = df.rename(columns=wide_header_map)
    if extra_columns:
        for name, vals in extra_columns.items():
            df[name] = (list(vals) * (len(df) // max(1, len(vals)) + 1))[: len(df)]
    co = layout.get("col_order")
    if co:
        cs = list(df.columns)
        perm = [cs[i % len(cs)] for i in co]
        seen = []
        for c in perm + cs:
            if c not in seen:
                seen.append(c)
        df = df[seen]
    idx = [hdr[l] for l in layout.get("index", []) if l in dimcols]
    if idx:
        df = df.set_index(idx)
    return df


def full_records(U, letters, value_fn):
    import itertools

    items = build.uitems(U)
    out = []
    for key in itertools.product(*[items[l] for l in letters]):
        lab = dict(zip(letters, key))
        out.append((lab, value_fn(lab)))
    return out


def through_csv(df, tmpdir, name="frame.csv", header=True):
    """Write and re-read as CSV text the way the CSV reader does."""
    import os

    path = os.path.join(tmpdir, name)
    has_index = any(n is not None for n in df.index.names)
    df.to_csv(path, index=has_index, header=header)
    return pd.read_csv(path, float_precision="round_trip"), path
