#!/venv/bin/python
"""Coverage-guided fuzz target for the DataFrame importer (C11 weak clause + C12 contract).

Bytes -> (FuzzedDataProvider) -> fault-case descriptor of props/c12_import_faults.py ->
rendered frame -> from_df / set_values_from_df -> contract model + row-faithfulness oracle, all inside
the target.  flodym is instrumented for coverage feedback on the format-inference branches.

usage: df_import_fuzz.py [libFuzzer flags] [corpus dirs]        (run through the C12 'fuzz' facet)
       df_import_fuzz.py --decode <file>                        (print the descriptor of an input as JSON)
"""
import json
import os
import sys

HERE = os.path.dirname(os.path.abspath(__file__))
sys.path.insert(0, os.path.dirname(HERE))
from vlib import env  # noqa: E402

import atheris  # noqa: E402

with atheris.instrument_imports(include=["flodym"]):
    env.import_flodym()

from props import c12_import_faults as c12  # noqa: E402
from vlib import gen  # noqa: E402
from vlib.runner import Discard, Violation, classify_exception  # noqa: E402

KINDS = ["str", "int", "ustr"]


def decode(data: bytes):
    fdp = atheris.FuzzedDataProvider(data)
    nd = fdp.ConsumeIntInRange(1, 3)
    letters = list("abc")[:nd]
    dims = []
    for k, l in enumerate(letters):
        n = fdp.ConsumeIntInRange(1, 4)
        kind = KINDS[fdp.ConsumeIntInRange(0, 2)]
        dims.append({"letter": l, "name": gen.NAMES[l], "items": gen.items_for(l, k, n, kind), "dtype": gen.kind_dtype(kind)})
    U = {"dims": dims}
    order = list(letters)
    for i in range(len(order) - 1, 0, -1):
        j = fdp.ConsumeIntInRange(0, i)
        order[i], order[j] = order[j], order[i]
    wide = None
    if nd >= 2 and fdp.ConsumeBool():
        wide = order[fdp.ConsumeIntInRange(0, nd - 1)]
    rest = [l for l in order if l != wide]
    layout = {
        "wide": wide,
        "index": [l for l in rest if fdp.ConsumeBool()],
        "header": {l: ("name" if fdp.ConsumeBool() else "letter") for l in order},
        "value_col": ["value", "Amount (t)", "v"][fdp.ConsumeIntInRange(0, 2)] if wide is None else "value",
        "col_order": [fdp.ConsumeIntInRange(0, 6) for _ in range(fdp.ConsumeIntInRange(0, 4))] or None,
        "drop_single": [l for l in rest if len([d for d in dims if d["letter"] == l][0]["items"]) == 1 and fdp.ConsumeBool()],
    }
    faults = []
    for _ in range(fdp.ConsumeIntInRange(0, 3)):
        faults.append(
            {
                "kind": c12.FAULT_KINDS[fdp.ConsumeIntInRange(0, len(c12.FAULT_KINDS) - 1)],
                "pos": fdp.ConsumeIntInRange(0, 63),
                "pos2": fdp.ConsumeIntInRange(0, 63),
                "dim": fdp.ConsumeIntInRange(0, 5),
                "other_value": fdp.ConsumeBool(),
            }
        )
    desc = {
        "universe": U,
        "letters": order,
        "layout": layout,
        "faults": faults,
        "allow_missing": fdp.ConsumeBool(),
        "allow_extra": fdp.ConsumeBool(),
        "entry": "from_df" if fdp.ConsumeBool() else "set_values_from_df",
        "dup_index": fdp.ConsumeBool(),
    }
    row_level = {"dup_row", "drop_row", "blank", "relabel", "relabel_known", "swap_labels"}
    if fdp.ConsumeBool() and wide is None and all(d["dtype"] is not None for d in dims) and all(f["kind"] in row_level for f in faults):
        # the same long table without a header line (first data row read as column names)
        desc["layout"] = {"wide": None, "index": [], "header": {l: "junk" for l in order}, "value_col": "value", "col_order": None, "drop_single": []}
        desc["noheader"] = True
        desc["dup_index"] = False
    desc["infs"] = [[fdp.ConsumeIntInRange(0, 63), 1 if fdp.ConsumeBool() else -1] for _ in range(fdp.ConsumeIntInRange(0, 2))]
    return desc


def TestOneInput(data: bytes):
    if len(data) < 4:
        return
    desc = decode(data)
    try:
        c12.run_fault_case(desc)
    except Discard:
        return
    except Violation:
        raise
    except Exception as e:
        v = classify_exception(e)
        if v is None:
            raise
        raise v


def main():
    if len(sys.argv) >= 3 and sys.argv[1] == "--decode":
        print(json.dumps(decode(open(sys.argv[2], "rb").read())))
        return
    import logging

    logging.disable(logging.CRITICAL)
    atheris.Setup(sys.argv, TestOneInput)
    atheris.Fuzz()


if __name__ == "__main__":
    main()
