"""C07 - summing, casting and shares conserve totals and act by label.

One generator of (array, operation, dimension arguments, way of naming them); three value
modes: symbolic (linear identities decided for all values), label-coded integers, floats.
"""
from __future__ import annotations

import numpy as np
from hypothesis import strategies as st

from vlib import build, gen, model
from vlib.build import fd
from vlib.model import MArr
from vlib.runner import Discard, Facet, Prop, Violation, require

OPS = ["sum_to", "sum_over", "cumsum", "cast_to", "shares", "sum_to", "cast_to"]


def name_dims(U, letters, naming, arr):
    out = []
    for l, how in zip(letters, naming):
        d = build.udim(U, l)
        if how == 0:
            out.append(l)
        elif how == 1:
            out.append(d["name"])
        else:
            out.append(build.dimension(d))
    return tuple(out)


def raises(fn):
    try:
        fn()
    except Exception:
        return True
    return False


def run_case(desc):
    U = desc["universe"]
    xd = desc["x"]
    mode = xd["mode"]
    op = desc["op"]
    x = build.array(U, xd)
    mx = build.marr(U, xd)
    snap = build.snapshot(x)
    eq = build.eq_for(mode)
    if mode == "int":
        eq = model.make_eq_float(1e-12)
    if mode == "float":
        scale = sum(abs(v) for v in mx.data.values())
        feq = model.make_eq_float(1e-9)
        eq = lambda a, b: feq(a, b, scale)
    letters = list(desc["dims"])
    naming = desc.get("naming") or [0] * len(letters)
    classes = [f"op:{op}", f"mode:{mode}"]
    if any(naming):
        classes.append("named-by-name-or-object")
    if gen.is_permuted(U, xd["letters"]):
        classes.append("x-permuted")
    bad = desc.get("bad")
    nontrivial = len(xd["letters"]) >= 2 and (gen.is_permuted(U, letters) or gen.is_permuted(U, xd["letters"])) or any(naming)

    if bad:
        classes.append(f"bad:{bad}")
        if op in ("sum_to", "sum_over"):
            foreign = {"letter": "z", "name": "Zeta", "items": ["z0", "z1"], "dtype": None}
            badarg = {"letter": "z", "name": "Zeta", "object": build.dimension(foreign)}[bad]
            args = name_dims(U, letters, naming, x) + (badarg,)
            fn = (lambda: x.sum_to(args)) if op == "sum_to" else (lambda: x.sum_over(args))
            require(raises(fn), f"{op}-accepts-unknown-dimension", f"{op}({args!r}) on dims {xd['letters']} did not raise")
        elif op == "cumsum":
            require(raises(lambda: x.cumsum("z")), "cumsum-accepts-unknown-dimension", "")
        elif op == "cast_to":
            # target lacks one of the source's dimensions
            tgt = [l for l in letters if l != xd["letters"][0]]
            require(raises(lambda: x.cast_to(build.dimset(U, tgt))), "cast-accepts-target-lacking-source-dim", f"{xd['letters']} -> {tgt}")
            # ... also when it holds ANOTHER dimension (other letter) that merely has the same name and items
            lost = build.udim(U, xd["letters"][0])
            namesake = fd.Dimension(letter="Z", name=lost["name"], items=list(lost["items"]), dtype=build._DT[lost.get("dtype")])
            tds = fd.DimensionSet(dim_list=[namesake if l == xd["letters"][0] else build.dimension(build.udim(U, l)) for l in letters])
            require(raises(lambda: x.cast_to(tds)), "cast-accepts-target-lacking-source-dim", f"{xd['letters']} -> {[d.letter for d in tds]} (a namesake of '{xd['letters'][0]}' under letter Z)")
        elif op == "shares":
            require(raises(lambda: x.get_shares_over(("z",))), "shares-accepts-unknown-dimension", "")
        require(build.snapshot(x) == snap, "input-modified", op)
        return {"nontrivial": True, "classes": classes}

    if op == "sum_to":
        res = x.sum_to(name_dims(U, letters, naming, x))
        exp = mx.sum_to(letters)
        d = model.diff(exp, MArr.from_flodym(res), eq)
        require(d is None, "sum_to", f"{d}; x{xd['letters']} -> {letters}")
        require(eq(mx.total(), MArr.from_flodym(res).total()), "sum_to", "grand total not preserved")
        # values-only variants
        v = x.sum_values_to(tuple(letters))
        require(np.shape(v) == tuple(len(mx.items[l]) for l in letters), "sum_values_to", "shape")
        if mode != "sym":
            require(eq(mx.total(), x.sum_values()), "sum_values", "grand total")
            require(np.allclose(np.asarray(v, float), np.asarray(res.values, float), rtol=0, atol=0), "sum_values_to", "differs from sum_to")
    elif op == "sum_over":
        res = x.sum_over(name_dims(U, letters, naming, x))
        keep = [l for l in xd["letters"] if l not in letters]
        exp = mx.sum_to(keep)
        d = model.diff(exp, MArr.from_flodym(res), eq)
        require(d is None, "sum_over", f"{d}; x{xd['letters']} over {letters}")
        if mode != "sym":
            v = x.sum_values_over(tuple(letters))
            require(np.array_equal(np.asarray(v, float), np.asarray(res.values, float)), "sum_values_over", "differs from sum_over")
    elif op == "cumsum":
        l = letters[0]
        if desc.get("narrow"):
            # counts stored in a narrow integer (or boolean) type whose running totals leave that type's range: the
            # accumulated values are what matters, not the storage type of the input
            nt = desc["narrow"]
            base = {"int32": 1_000_000_000, "int16": 20_000, "uint8": 150, "bool": 0}[nt]
            mod = {"int32": 1000, "int16": 1000, "uint8": 100, "bool": 2}[nt]
            mx = mx.map(lambda v: int(base + (int(v) % mod)) if nt != "bool" else int(v) % 2)
            x = fd.FlodymArray(dims=x.dims, values=build.ndarray_from_fn(list(mx.letters), mx.items, lambda lab: mx.get(lab), np.dtype(nt)))
            snap = build.snapshot(x)
            eq = lambda a, b: int(a) == int(b)
            classes.append(f"narrow-storage:{nt}")
        res = x.cumsum(l)
        exp = mx.cumsum(l)
        d = model.diff(exp, MArr.from_flodym(res), eq)
        require(d is None, "cumsum", f"{d}; x{xd['letters']} along {l}")
        # in-place variant on a copy gives the same
        c = x.copy()
        c.cumsum(l, inplace=True)
        d = model.diff(exp, MArr.from_flodym(c), eq)
        require(d is None, "cumsum-inplace", str(d))
    elif op == "cast_to":
        tgt = build.dimset(U, letters)
        res = x.cast_to(tgt)
        exp = mx.cast_to(letters, build.uitems(U))
        got = MArr.from_flodym(res)
        d = model.diff(exp, got, eq)
        require(d is None, "cast_to", f"{d}; x{xd['letters']} -> {letters}")
        if mode != "sym":
            require(np.array_equal(np.asarray(x.cast_values_to(tgt), float), np.asarray(res.values, float)), "cast_values_to", "differs from cast_to")
        n_added = 1
        for l in letters:
            if l not in xd["letters"]:
                n_added *= len(build.udim(U, l)["items"])
        back = got.sum_to(xd["letters"])
        d = model.diff(mx.map(lambda v: v * n_added), back, eq)
        require(d is None, "cast_to-sum-back", str(d))
        classes.append(f"added:{len(letters) - len(xd['letters'])}")
    elif op == "shares":
        res = x.get_shares_over(tuple(letters))
        got = MArr.from_flodym(res)
        require(got.letters == mx.letters, "shares", f"dims {got.letters} != {mx.letters}")
        keep = [l for l in xd["letters"] if l not in letters]
        tot = mx.sum_to(keep)
        for key in mx.keys():
            lab = dict(zip(mx.letters, key))
            t = tot.get(lab)
            if mode != "sym" and t == 0:
                continue
            g = got.get(lab)
            if mode == "sym":
                require(model.eq_sym(g * t, mx.get(lab)), "shares", f"share*total != entry at {lab}")
            else:
                require(abs(g * t - mx.get(lab)) <= 1e-9 * max(abs(t), abs(mx.get(lab))), "shares", f"share*total != entry at {lab}: {g}*{t} vs {mx.get(lab)}")
        sums = got.sum_to(keep)
        for key in sums.keys():
            lab = dict(zip(sums.letters, key))
            t = tot.get(lab)
            if mode == "sym":
                require(model.eq_sym(sums.get(lab), 1), "shares", f"shares do not add up to one at {lab}")
            elif t != 0:
                # conditioning: sum |x| / |total|
                absx = sum(abs(mx.get(dict(zip(mx.letters, k)))) for k in mx.keys() if all(dict(zip(mx.letters, k))[l] == lab[l] for l in keep))
                tol = 1e-9 * max(1.0, absx / abs(t))
                require(abs(sums.get(lab) - 1) <= tol, "shares", f"shares add up to {sums.get(lab)} at {lab}")
    require(build.snapshot(x) == snap, "input-modified", op)
    again = desc.get("again")
    if again and mode in ("coded", "float", "int") and xd["letters"]:
        # the same array object is updated in place (as in a scenario loop) and reduced again in the same way:
        # the second result must be computed from the values the array holds NOW
        l0 = xd["letters"][0]
        first = mx.items[l0][0]
        if again == "values":
            x.values[...] = x.values * 2 + 1
            mx2 = mx.map(lambda v: v * 2 + 1)
        elif again == "setitem":
            x[...] = x * 2 + 1
            mx2 = mx.map(lambda v: v * 2 + 1)
        else:
            x[{l0: first}] = 0
            mx2 = MArr.from_fn(mx.letters, mx.items, lambda lab: 0 if lab[l0] == first else mx.get(lab))
        if op == "sum_to":
            res2, exp2 = x.sum_to(name_dims(U, letters, naming, x)), mx2.sum_to(letters)
        elif op == "sum_over":
            res2, exp2 = x.sum_over(name_dims(U, letters, naming, x)), mx2.sum_to([l for l in xd["letters"] if l not in letters])
        elif op == "cumsum":
            res2, exp2 = x.cumsum(letters[0]), mx2.cumsum(letters[0])
        elif op == "cast_to":
            res2, exp2 = x.cast_to(build.dimset(U, letters)), mx2.cast_to(letters, build.uitems(U))
        else:
            res2 = x.get_shares_over(tuple(letters))
            tot2 = mx2.sum_to([l for l in xd["letters"] if l not in letters])
            exp2 = None
            got2 = MArr.from_flodym(res2)
            for key in mx2.keys():
                lab = dict(zip(mx2.letters, key))
                t = tot2.get(lab)
                if t == 0:
                    continue
                require(abs(got2.get(lab) * t - mx2.get(lab)) <= 1e-9 * max(abs(t), abs(mx2.get(lab))), "stale-result-after-inplace-update", f"shares after {again}: share*total != entry at {lab}")
        if exp2 is not None:
            scale2 = sum(abs(v) for v in mx2.data.values())
            feq2 = model.make_eq_float(1e-9)
            d = model.diff(exp2, MArr.from_flodym(res2), lambda a, b: feq2(a, b, scale2))
            require(d is None, "stale-result-after-inplace-update", f"{op} repeated after in-place update ({again}): {d}; x{xd['letters']} dims {letters}")
        classes.append(f"repeated-after-inplace-{again}")
    return {"nontrivial": bool(nontrivial), "classes": classes}


@st.composite
def cases(draw, mode, max_dims=4, max_len=3):
    U = draw(gen.universes(min_dims=draw(st.sampled_from([1, 2, 2, 3])), max_dims=max_dims, max_len=max_len, long_dim=8 if mode == "coded" else 0))
    obj = mode == "sym"
    op = draw(st.sampled_from(OPS))
    allL = gen.uletters(U)
    elems = None
    if mode == "float" and op == "shares":
        elems = st.one_of(st.sampled_from([0.0, 0.0, 1.0, 2.0]), st.floats(1e-6, 100, allow_nan=False), st.floats(-100, -1e-6, allow_nan=False))
    min_x = 1 if (obj or op in ("cumsum", "shares")) else 0
    x = draw(gen.arrays(U, modes=(mode,), tag="x", min_dims=min_x, elems=elems, allow_int=True))
    xl = x["letters"]
    bad = None
    if draw(st.integers(0, 7)) == 0:
        bad = draw(st.sampled_from(["letter", "name", "object"]))
    if op == "sum_to":
        dims = draw(gen.ordered_subtuple(xl, min_size=1 if obj else 0))
    elif op == "sum_over":
        dims = draw(gen.ordered_subtuple(xl))
        if obj and len(dims) == len(xl):
            dims = dims[:-1]
    elif op == "cumsum":
        dims = [xl[draw(st.integers(0, len(xl) - 1))]]
    elif op == "cast_to":
        extra = [l for l in allL if l not in xl]
        add = draw(gen.ordered_subtuple(extra))
        dims = list(draw(st.permutations(xl + add)))
        if bad and not xl:
            bad = None
    else:
        dims = draw(gen.ordered_subtuple(xl, min_size=1))
        if obj and len(dims) == len(xl):
            if len(xl) == 1:
                op, dims = "sum_to", list(xl)
            else:
                dims = dims[:-1]
    naming = [draw(st.sampled_from([0, 1, 2])) for _ in dims] if op in ("sum_to", "sum_over") else [0] * len(dims)
    if mode == "float" and op == "shares" and draw(st.booleans()):
        # any unit: totals of 1e-13 are as legitimate as totals of 1e6
        k = draw(st.sampled_from([1e-15, 1e-13, 1e-9, 1e7]))
        x = dict(x, vals=[v * k for v in x["vals"]])
    again = draw(st.sampled_from([None, None, "values", "setitem", "slice0"])) if mode != "sym" else None
    d_ = {"universe": U, "x": x, "op": op, "dims": dims, "naming": naming, "bad": bad, "again": again}
    if op == "cumsum" and mode == "coded" and not bad and draw(st.booleans()):
        d_["narrow"] = draw(st.sampled_from(["int32", "int16", "uint8", "bool"]))
        d_["again"] = None
    return d_


class _F(Facet):
    mode = "coded"

    def strategy(self, tier):
        return cases(self.mode, max_dims=4, max_len=3 if tier == "quick" else 4)

    def run(self, desc):
        return run_case(desc)


class Sym(_F):
    name = "sym"
    mode = "sym"
    examples = {"quick": 3200, "thorough": 120000}
    shards = {"quick": 16, "thorough": 16}

    def strategy(self, tier):
        return cases("sym", max_dims=3 if tier == "quick" else 4, max_len=2 if tier == "quick" else 3)


class Coded(_F):
    name = "coded"
    mode = "coded"
    examples = {"quick": 8000, "thorough": 360000}
    shards = {"quick": 8, "thorough": 16}


class Float(_F):
    name = "float"
    mode = "float"
    examples = {"quick": 6000, "thorough": 270000}
    shards = {"quick": 8, "thorough": 16}


Prop(
    "C07",
    "exploration",
    "Generated (array dims/order/values, operation in sum_to/sum_over/cumsum/cast_to/get_shares_over, kept/summed/"
    "added dimension tuples in any order, each named by letter, name or Dimension object; 1 in 8 cases passes an "
    "unknown letter/name/foreign Dimension or a cast target lacking a source dimension and must be rejected). "
    "Results compared entry by entry with the label-dict model; symbolic mode decides the linear identities for all "
    "values. Non-trivial = >= 2 dims with a non-identity order, or a dimension named by name/object.",
    [Sym(), Coded(), Float()],
    assumptions=[
        "object-dtype (symbolic) cases keep >= 1 result dimension (numpy cannot hold a 0-d object array); 0-d results are covered by coded/float modes",
        "shares are asserted only where the total over the given dimensions is non-zero",
    ],
)
