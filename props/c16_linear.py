"""C16 - dynamic stock models are causal, linear and independent across labels (metamorphic)."""
from __future__ import annotations

import itertools

import numpy as np
from hypothesis import strategies as st

from props.c03_balance import classes_of
from props.c10_inverse import tables
from vlib import build, gen, stockgen as sg
from vlib.runner import Discard, Facet, Prop, Violation, require

KEYS = ("stock", "inflow", "outflow", "sbc", "obc")


def run_model(cfg, driver, lifetime_desc=None, grid=None, extra=None):
    c = dict(cfg)
    if lifetime_desc is not None:
        c["lt"] = lifetime_desc
    if grid is not None:
        c["grid"] = grid
    if extra is not None:
        c["extra"] = extra
    s = sg.build_stock(c, driver=driver)
    s.compute()
    return tables(s), s


def maxdiff(a, b):
    return max(float(np.max(np.abs(a[k] - b[k]))) if a[k].size else 0.0 for k in KEYS)


def run_case(desc):
    cfg = dict(desc["cfg"], scale=1.0)  # C16 passes drivers explicitly and scales them itself
    int_driver = bool(cfg.get("int_driver"))
    U = sg.universe_of(cfg)
    letters = gen.uletters(U)
    shape = tuple(len(d["items"]) for d in U["dims"])
    n = shape[0]
    u = np.array(cfg["driver"], float).reshape(shape)  # C16 scales explicitly
    if int_driver:
        u = np.round(u)
    v = np.array(desc["v"], float).reshape(-1)[: u.size]
    v = np.resize(v, u.size).reshape(shape)
    probe = sg.build_stock(dict(cfg, cls="idsm"))
    cond = 1.0
    if cfg["cls"].startswith("sdsm"):
        if sg.first_interval_survival(probe) < 0.05:
            raise Discard("first-interval survival < 0.05")
        cond = sg.cond_inf(probe)
        if cond > 1e8:
            raise Discard("ill-conditioned survival table")
    dt = np.array(sg.documented_dt(cfg["grid"]))
    eps = np.finfo(float).eps
    base, sobj = run_model(cfg, u)
    mag = max(1.0, float(np.max(np.abs(u))), float(np.max(np.abs(v)))) * max(1.0, float(np.max(dt))) * n / min(1.0, float(np.min(dt)))
    tol = (64 * eps * cond + 1e-10) * mag
    kind = "idsm" if cfg["cls"] == "idsm" else "sdsm"
    runs = 1

    # 1. superposition and scaling
    al, be = desc["alpha"], desc["beta"]
    rv, _ = run_model(cfg, v)
    comb, _ = run_model(cfg, al * u + be * v)
    runs += 2
    for k in KEYS:
        d = float(np.max(np.abs(comb[k] - (al * base[k] + be * rv[k]))))
        require(d <= tol * (abs(al) + abs(be) + 1), f"not-linear-{kind}", f"{k}: R({al}u+{be}v) differs from {al}R(u)+{be}R(v) by {d:.3g} (tol {tol:.2g})")

    # 1b. pure scaling over many orders of magnitude (results scale with the driver, whatever the unit)
    sc = desc.get("scale", 1e-10)
    if int_driver:
        sc = 3.0  # whole numbers stay whole numbers
    rs, _ = run_model(cfg, sc * u)
    runs += 1
    for k in KEYS:
        d = float(np.max(np.abs(rs[k] - sc * base[k])))
        require(d <= tol * abs(sc), f"not-linear-{kind}", f"{k}: R({sc:g} u) differs from {sc:g} R(u) by {d:.3g} (tol {tol * abs(sc):.2g})")

    # 2. every unit impulse of the driver: causal, confined to its label, and a basis of R(u)
    sf = np.array(sobj.lifetime_model.sf, float)
    acc = {k: np.zeros_like(base[k]) for k in KEYS}
    for flat in range(u.size):
        idx = np.unravel_index(flat, shape)
        e = np.zeros(shape)
        e[idx] = 1.0
        r, _ = run_model(cfg, e)
        runs += 1
        t0, lab = idx[0], idx[1:]
        for k in KEYS:
            a = r[k]
            # rows before the impulse are zero
            require(float(np.max(np.abs(a[:t0]))) <= tol if t0 else True, f"not-causal-{kind}", f"{k}: impulse at t={t0} changes earlier rows")
            # other labels are untouched
            mask = np.ones(shape[1:], bool)
            mask[lab] = False
            if mask.any():
                other = a[(slice(None),) * (a.ndim - len(shape) + 1) + (mask,)]
                require(float(np.max(np.abs(other))) <= tol if other.size else True, f"labels-not-independent-{kind}", f"{k}: impulse at label {lab} reaches another label")
            acc[k] += u[idx] * a
        if kind == "idsm":
            col = dt[t0] * sf[(slice(None), t0) + lab]
            got = r["stock"][(slice(None),) + lab]
            require(float(np.max(np.abs(got - col))) <= 1e-10 * max(1.0, float(np.max(dt))), "impulse-response-not-survival-column", f"cohort {t0} label {lab}: {float(np.max(np.abs(got - col))):.3g}")
    for k in KEYS:
        d = float(np.max(np.abs(acc[k] - base[k])))
        require(d <= tol * u.size, f"not-linear-{kind}", f"{k}: sum of impulse responses differs from R(u) by {d:.3g}")

    # 3. every truncation point: changing the driver after step k leaves results up to k unchanged
    for k_ in range(n - 1):
        w = u.copy()
        w[k_ + 1 :] = v[k_ + 1 :] * 3.0 + 1.0
        r, _ = run_model(cfg, w)
        runs += 1
        for k in KEYS:
            d = float(np.max(np.abs(r[k][: k_ + 1] - base[k][: k_ + 1])))
            require(d <= tol, f"not-causal-{kind}", f"{k}: rows <= {k_} change by {d:.3g} when the driver changes after step {k_}")

    # 4. every label combination computed alone with its own parameters
    items = build.uitems(U)
    if len(shape) > 1:
        pf = {name: sg.prm_value_fn(U, p) for name, p in cfg["lt"]["prms"].items()}
        for idx in itertools.product(*[range(s_) for s_ in shape[1:]]):
            lab = {l: items[l][i] for l, i in zip(letters[1:], idx)}
            prms = {}
            for name, p in cfg["lt"]["prms"].items():
                if p["kind"] == "array" and "t" in p["letters"]:
                    prms[name] = {"kind": "array", "letters": ["t"], "vals": [pf[name](dict(lab, t=ti)) for ti in cfg["grid"]]}
                else:
                    prms[name] = {"kind": "scalar", "v": pf[name](dict(lab, t=cfg["grid"][0]))}
            lt1 = dict(cfg["lt"], prms=prms)
            r, _ = run_model(cfg, u[(slice(None),) + idx], lifetime_desc=lt1, extra=[])
            runs += 1
            for k in KEYS:
                sl = base[k][(slice(None),) * (base[k].ndim - len(shape) + 1) + idx]
                d = float(np.max(np.abs(r[k] - sl)))
                require(d <= tol, f"labels-not-independent-{kind}", f"{k}: label {lab} alone differs from its slice of the full run by {d:.3g}")

    # 5. calendar shift
    sh = desc["shift"]
    shifted = [x + sh for x in cfg["grid"]]
    lt_s = cfg["lt"]
    # a fixed lifetime is a step function: on a grid that is not exactly representable (0.1, 0.2, ...) an age that
    # ties with the lifetime is rounded differently after the shift, which is float arithmetic and not the model
    dyadic = all(float(x) * 8 == int(float(x) * 8) and abs(x) < 2**20 for x in cfg["grid"])
    shift_cl = []
    if lt_s["cls"] == "FixedLifetime" and not dyadic:
        shift_cl = ["calendar-shift-skipped:step-function-on-inexact-grid"]
    else:
        r, _ = run_model(cfg, u, grid=shifted)
        runs += 1
        for k in KEYS:
            d = float(np.max(np.abs(r[k] - base[k])))
            require(d <= tol * 10, f"calendar-shift-changes-result-{kind}", f"{k}: shift by {sh} changes results by {d:.3g}")

    cl = classes_of(cfg) + [f"runs:{min(runs // 10 * 10, 60)}"] + shift_cl
    nontrivial = (len(shape) > 1 and int(np.prod(shape[1:])) >= 2 and sg.lt_varies(cfg["lt"])) or sg.grid_kind(cfg["grid"]) == "uneven"
    return {"nontrivial": nontrivial, "classes": cl}


@st.composite
def cases(draw, max_n=6):
    cfg = draw(sg.stock_configs(classes=("idsm", "sdsm_manual", "sdsm_lapack"), max_n=max_n, signed=True, long_grid=40))
    # per-cohort parameters are kept (causality must hold with them too)
    n = 1
    for d in sg.universe_of(cfg)["dims"]:
        n *= len(d["items"])
    v = draw(st.lists(st.sampled_from([-3.0, -1.0, 0.0, 1.0, 2.0, 5.0, 10.0]), min_size=n, max_size=n))
    return {
        "cfg": cfg,
        "v": v,
        "alpha": draw(st.sampled_from([-2, -1, 2, 3])),
        "beta": draw(st.sampled_from([-1, 1, 2])),
        "shift": draw(st.sampled_from([1, -7, 100, 0.5, 12.25])),
        "scale": draw(st.sampled_from([1e-12, 1e-10, 1e-9, 1e-4, 1e5, 1e9])),
    }


class Relations(Facet):
    name = "relations"
    examples = {"quick": 2400, "thorough": 72000}
    shards = {"quick": 16, "thorough": 16}

    def strategy(self, tier):
        return cases(max_n=6 if tier == "quick" else 9)

    def run(self, desc):
        return run_case(desc)


Prop(
    "C16",
    "exploration",
    "Per generated DSM configuration (class/solver, lifetime model incl. per-label and per-cohort parameters, grid, 0-2 extra "
    "dims): R(au+bv) = aR(u)+bR(v) for stock, inflow, outflow and both cohort tables; EVERY unit impulse of the driver (time x "
    "label, exhaustive per configuration) must be causal, confined to its own label, sum back to R(u), and for the inflow-driven "
    "model equal dt(c) x survival column; EVERY truncation point (driver altered after step k leaves rows <= k unchanged); EVERY "
    "label combination recomputed alone in a time-only model with that label's parameters equals its slice; calendar shift by an "
    "int or float constant changes nothing. Typically 20-60 model runs per configuration. Non-trivial = >= 2 labels with "
    "different parameters, or an uneven grid.",
    [Relations()],
    assumptions=["tolerance (64 eps cond_inf(sf) + 1e-10) x magnitude; ill-conditioned stock-driven cases discarded and counted"],
)
