"""C09 - cohort tables add up to the totals and each cohort is conserved."""
from __future__ import annotations

import numpy as np
from hypothesis import strategies as st

from props.c03_balance import classes_of, guard_conditioning
from vlib import stockgen as sg
from vlib.runner import Facet, Prop, Violation, require


def run_case(desc):
    from vlib.runner import Discard

    cfg = desc["cfg"]
    stock = sg.build_stock(cfg)
    guard_conditioning(cfg, stock)
    stock.compute()
    out = check_tables(cfg, stock, "")
    if cfg.get("reprm"):
        cfg2 = dict(cfg, lt=dict(cfg["lt"], prms=cfg["reprm"]))
        try:
            guard_conditioning(cfg2, sg.build_stock(cfg2))
        except Discard:
            return out
        U = sg.universe_of(cfg)
        if cfg["cls"].startswith("sdsm"):
            stock.stock.values[...] = sg.driver_array(cfg).values
        stock.lifetime_model.set_prms(**{k: sg.build_prm(U, p) for k, p in cfg["reprm"].items()})
        stock.compute()
        check_tables(cfg2, stock, "after-set_prms-")
        out["classes"].append("recomputed-after-set_prms")
    return out


def check_tables(cfg, stock, pre):
    S = np.array(stock.stock.values, float)
    I = np.array(stock.inflow.values, float)
    O = np.array(stock.outflow.values, float)
    sbc = np.array(stock.get_stock_by_cohort(), float)
    obc = np.array(stock.get_outflow_by_cohort(), float)
    sf = np.array(stock.lifetime_model.sf, float)
    n = S.shape[0]
    dt = np.array(sg.documented_dt(cfg["grid"]))
    gk = sg.grid_kind(cfg["grid"])
    kind = "idsm" if cfg["cls"] == "idsm" else "sdsm"
    require(sbc.shape == (n,) + S.shape and obc.shape == (n,) + S.shape, "cohort-table-shape", f"{sbc.shape} {obc.shape}")
    dtc = dt.reshape((n,) + (1,) * (S.ndim - 1))
    scale = float(np.max(np.abs(S)) + np.max(dtc * (np.abs(I) + np.abs(O))))
    tol = 1e-9 * scale + 1e-290  # relative (flows may be in any unit); floor for subnormals
    require(np.max(np.abs(sbc.sum(axis=1) - S)) <= tol, f"{pre}stock-not-sum-of-cohorts-{kind}-{gk}", f"max diff {np.max(np.abs(sbc.sum(axis=1) - S)):.3g}; grid {cfg['grid']}")
    require(np.max(np.abs(obc.sum(axis=1) - O)) <= tol, f"{pre}outflow-not-sum-of-cohorts-{kind}-{gk}", f"max diff {np.max(np.abs(obc.sum(axis=1) - O)):.3g}")
    entered = dtc * I  # whole-interval inflow per cohort
    for t in range(n):
        for c in range(n):
            if c > t:
                require(np.all(sbc[t, c] == 0) and np.all(obc[t, c] == 0), "cohort-later-than-year-nonzero", f"t={t} c={c}")
            else:
                exp = entered[c] * sf[t, c]
                require(np.max(np.abs(sbc[t, c] - exp)) <= tol, f"{pre}cohort-stock-not-inflow-times-survival-{kind}-{gk}", f"t={t} c={c}: {np.max(np.abs(sbc[t, c] - exp)):.3g}")
    # cohort conservation
    left = np.zeros_like(sbc[0])
    for t in range(n):
        left = left + dt[t] * obc[t]  # cumulative outflow of every cohort up to t (whole intervals)
        for c in range(t + 1):
            resid = entered[c] - sbc[t, c] - left[c]
            require(np.max(np.abs(resid)) <= tol * (t + 2), f"{pre}cohort-not-conserved-{kind}-{gk}", f"t={t} c={c}: residual {np.max(np.abs(resid)):.3g}; grid {cfg['grid']}")
    if np.all(I >= 0):
        d = np.diff(sbc, axis=0)
        for c in range(n):
            require(np.all(d[c:, c] <= tol), "cohort-stock-increases", f"c={c}")
    cl = classes_of(cfg) + [f"scale:{cfg.get('scale', 1.0):g}"]
    nz = int(np.sum(np.any(np.abs(I.reshape(n, -1)) > 0, axis=1)))
    return {"nontrivial": gk != "unit" or nz >= 3, "classes": cl}


class Cohorts(Facet):
    name = "cohorts"
    examples = {"quick": 8000, "thorough": 450000}
    shards = {"quick": 16, "thorough": 16}

    def strategy(self, tier):
        return st.fixed_dictionaries({"cfg": sg.stock_configs(classes=("idsm", "sdsm_manual", "sdsm_lapack"), max_n=8 if tier == "quick" else 12, long_grid=12)})

    def run(self, desc):
        return run_case(desc)


Prop(
    "C09",
    "exploration",
    "Stock configurations as C03 restricted to the DSM classes (both solvers). After compute(): stock == sum_c stock_by_cohort, "
    "outflow == sum_c outflow_by_cohort, both tables exactly zero for c > t, stock_by_cohort[t,c] == dt(c) inflow(c) sf[t,c] "
    "(sf read from the public lifetime_model.sf, validated by C08), cohort stock non-increasing for non-negative inflow, and "
    "dt(c) inflow(c) == stock_by_cohort[t,c] + sum_{s<=t} dt(s) outflow_by_cohort[s,c]; tolerance 1e-9 x magnitude. "
    "Non-trivial = non-unit grid or >= 3 cohorts with non-zero inflow.",
    [Cohorts()],
    assumptions=["stock-driven cases with first-interval survival < 0.05 or cond_inf(sf) > 1e8 are discarded (counted)"],
)
