"""C02 - mass-balance and flow checks report exactly the violations.

Facet ``balance``: generated system graphs (processes, parallel/opposing/self-loop flows over their own
ordered dimension subsets, stocks with and without process, processes without any flow, systems
without stocks), exact integer values, optional exact closing flows, one perturbed entry placed
below or above the tolerance, NaN injection, explicit and default tolerance, both raise_error modes.
Oracle: an independent balance computed with Fractions from the descriptor.
Facet ``flows``: check_flows flags exactly the non-excepted flows holding a NaN or an entry < -tolerance.
"""
from __future__ import annotations

import itertools
import logging
import re
import math
from fractions import Fraction

import numpy as np
from hypothesis import strategies as st

from vlib import build, gen
from vlib.build import fd
from vlib.model import MArr
from vlib.runner import Discard, Facet, Prop, Violation, require

EPS = float(np.finfo(np.float64).eps)


class _Capture(logging.Handler):
    def __init__(self):
        super().__init__(level=logging.WARNING)
        self.records = []

    def emit(self, record):
        self.records.append(record)


LAST_WARNINGS = []  # messages of the WARNING records of the last observe() call that returned normally


def observe(fn):
    """-> ('raised'|'warned'|'ok', detail).  WARNING records are captured; the verdict does not look at
    their text (LAST_WARNINGS keeps it for the one check that asks *which* flows were named)."""
    root = logging.getLogger()
    old_level, old_handlers = root.level, list(root.handlers)
    cap = _Capture()
    root.handlers = [cap]
    root.setLevel(logging.WARNING)
    try:
        try:
            fn()
        except Exception as e:
            import traceback

            # for bucketing only: a report is raised by the library's reporting helper, anything
            # else is a crash (the verdict itself never looks at this or at message texts)
            e._verif_crash = traceback.extract_tb(e.__traceback__)[-1].name != "_error_or_warning"
            return "raised", e
        LAST_WARNINGS[:] = [r.getMessage() for r in cap.records if r.levelno >= logging.WARNING]
        return ("warned" if any(r.levelno >= logging.WARNING for r in cap.records) else "ok"), None
    finally:
        root.handlers = old_handlers
        root.setLevel(old_level)


def code(U, letters, lab, salt):
    uorder = gen.uletters(U)
    items = build.uitems(U)
    c = 0
    for l in letters:
        c += (items[l].index(lab[l]) + 1) * 10 ** uorder.index(l)
    return c * (salt + 1) + salt


def arrays_of(desc):
    """name -> (letters, {label-key: Fraction}) for every flow and stock quantity, after closing,
    perturbation; NaN positions returned separately."""
    U = desc["universe"]
    items = build.uitems(U)
    out = {}
    small = bool(desc.get("zero_tol")) and desc.get("tol") == "explicit"
    _full_code = globals()["code"]
    if small:
        # small integers, so that sums stay exact in float64 together with a 2^-40 imbalance
        def code(U_, letters, lab, salt):
            return _full_code(U_, letters, lab, salt) % 61 + 1
    else:
        code = _full_code
    for i, f in enumerate(desc["flows"]):
        m = MArr.from_fn(f["letters"], items, lambda lab, i=i, f=f: Fraction(code(U, f["letters"], lab, i)))
        out[f"F{i}"] = m
    for i, s in enumerate(desc["stocks"]):
        out[f"S{i}.inflow"] = MArr.from_fn(s["letters"], items, lambda lab, i=i, s=s: Fraction(code(U, s["letters"], lab, 10 + 2 * i)))
        out[f"S{i}.outflow"] = MArr.from_fn(s["letters"], items, lambda lab, i=i, s=s: Fraction(code(U, s["letters"], lab, 11 + 2 * i) // 2))
        out[f"S{i}.stock"] = MArr.from_fn(s["letters"], items, lambda lab, i=i, s=s: Fraction(code(U, s["letters"], lab, 3 + i)))
    big = desc.get("big")
    if big:
        name = big["where"]
        if name in out:
            k = sorted(out[name].data)[big["pos"] % len(out[name].data)]
            out[name].data[k] = Fraction(2) ** big["exp"]
    return out


def contributions(desc, arrs):
    """process index -> list of (sign, MArr)"""
    con = {p: [] for p in range(desc["nproc"])}
    for i, f in enumerate(desc["flows"]):
        con[f["src"]].append((-1, arrs[f"F{i}"]))
        con[f["dst"]].append((+1, arrs[f"F{i}"]))
    for i, s in enumerate(desc["stocks"]):
        if s["proc"] is None:
            continue
        for sign, q in ((-1, "inflow"), (+1, "outflow")):
            con[s["proc"]].append((sign, arrs[f"S{i}.{q}"]))
            con[0].append((-sign, arrs[f"S{i}.{q}"]))
    return con


def balance_of(parts):
    """sum of signed contributions, each summed to the dimensions common to all of them"""
    if not parts:
        return None
    common = [l for l in parts[0][1].letters if all(l in m.letters for _, m in parts)]
    tot = None
    for sign, m in parts:
        s = m.sum_to(common)
        tot = {k: (tot[k] if tot else 0) + sign * v for k, v in s.data.items()}
    return common, tot


def close_system(desc, arrs):
    """Append closing flows so that every process is exactly balanced (uniform dims only)."""
    con = contributions(desc, arrs)
    U = desc["universe"]
    items = build.uitems(U)
    for p in range(1, desc["nproc"]):
        b = balance_of(con[p])
        if b is None:
            continue
        common, tot = b
        if all(v == 0 for v in tot.values()):
            continue
        i = len(desc["flows"])
        desc["flows"].append({"src": p, "dst": 0, "letters": list(common), "closing": True})
        arrs[f"F{i}"] = MArr(common, items, dict(tot))


def run_balance(desc, reuse=None):
    desc = {**desc, "flows": [dict(f) for f in desc["flows"] if not f.get("closing")]}
    U = desc["universe"]
    items = build.uitems(U)
    arrs = arrays_of(desc)
    if desc["mode"] == "balanced":
        close_system(desc, arrs)
    # exact perturbation of one entry
    pert = desc.get("perturb")
    names_bal = [n for n in arrs if not n.endswith(".stock")]
    # default tolerance, recomputed independently (float, as documented: 100 * eps * max magnitude)
    def default_tol():
        mags = [abs(float(v)) for n, m in arrs.items() if not n.startswith("S") or n.endswith(".stock") for v in m.data.values()]
        mags = [abs(float(v)) for n, m in arrs.items() if n.startswith("F") for v in m.data.values()]
        smags = [abs(float(v)) for n, m in arrs.items() if n.endswith(".stock") for v in m.data.values()]
        return 100 * EPS * max(max(mags, default=0.0), max(smags, default=0.0))

    if desc["tol"] == "default":
        if not desc["flows"]:
            raise Discard("default tolerance needs a flow to take the dtype from")
        tol = default_tol()
    else:
        tol = None  # fixed below relative to the reference balance
    if pert and names_bal:
        name = names_bal[pert["idx"] % len(names_bal)]
        key = sorted(arrs[name].data)[pert["pos"] % len(arrs[name].data)]
        base_tol = tol if tol is not None else 1.0
        delta = Fraction(pert["factor"]) * Fraction(base_tol)
        if tol is None:
            tol = 1.0
        if desc["tol"] == "explicit" and desc.get("zero_tol"):
            # an explicit tolerance of exactly 0 demands exact balance; the imbalance is a tiny dyadic number
            tol = 0.0
            delta = Fraction(1 if pert["factor"] > 0 else (-1 if pert["factor"] < 0 else 0), 2**40)
        arrs[name].data[key] += delta
        if desc["tol"] == "default":
            tol = default_tol()  # the perturbed entry may be the new maximum
    con = contributions(desc, arrs)
    maxB = Fraction(0)
    noise = 0.0
    per_proc = {}
    for p in range(desc["nproc"]):
        b = balance_of(con[p])
        if b is None:
            per_proc[p] = None
            continue
        mb = max((abs(v) for v in b[1].values()), default=Fraction(0))
        per_proc[p] = mb
        maxB = max(maxB, mb)
        nadd = sum(len(m.data) for _, m in con[p])
        mag = sum(abs(float(v)) for _, m in con[p] for v in m.data.values())
        integral = all(v.denominator == 1 for _, m in con[p] for v in m.data.values())
        dyadic = (all((v * 2**30).denominator == 1 for _, m in con[p] for v in m.data.values()) and mag < 2.0**21) or (
            all((v * 2**40).denominator == 1 for _, m in con[p] for v in m.data.values()) and mag < 2.0**11
        )
        if dyadic:
            pass  # multiples of 2^-30 below 2^21: every partial sum fits into 53 bits, so float sums are exact
        elif not (integral and mag < 2.0**52):  # integer sums below 2^52 are exact in float64
            noise = max(noise, nadd * EPS * mag)
    if tol is None:
        tol = float(maxB) * desc["tolfactor"] if maxB > 0 else (0.5 if desc["tolfactor"] != 1.0 else 0.0)
    nan = desc.get("nan")
    expect_fail = maxB > Fraction(tol)
    if nan is None and noise > 0 and abs(float(maxB) - tol) <= 4 * noise and maxB != 0:
        raise Discard("reference balance within float noise of the tolerance")
    if nan is None and maxB == 0 and tol == 0:
        expect_fail = False

    # ---- build the real system --------------------------------------------------------
    procs = fd.make_processes(["sysenv"] + [f"P{i}" for i in range(1, desc["nproc"])])
    pl = list(procs.values())

    # the unit of the whole system: every value (and an explicit tolerance) times 2^u, which is exact in binary
    # floating point, so all verdicts carry over unchanged - flows of grams or of gigatonnes
    unit = 2.0 ** int(desc.get("unit_exp") or 0)

    def nd(name):
        m = arrs[name]
        return build.ndarray_from_fn(list(m.letters), items, lambda lab: float(m.get(lab)) * unit, float)

    flows = {}
    for i, f in enumerate(desc["flows"]):
        flows[f"F{i}"] = fd.Flow(dims=build.dimset(U, f["letters"]), values=nd(f"F{i}"), name=f"F{i}", from_process=pl[f["src"]], to_process=pl[f["dst"]])
    stocks = {}
    for i, s in enumerate(desc["stocks"] if reuse is None else []):
        ds = build.dimset(U, s["letters"])
        stocks[f"S{i}"] = fd.SimpleFlowDrivenStock(
            dims=ds,
            name=f"S{i}",
            process=None if s["proc"] is None else pl[s["proc"]],
            inflow=fd.StockArray(dims=ds, values=nd(f"S{i}.inflow")),
            outflow=fd.StockArray(dims=ds, values=nd(f"S{i}.outflow")),
            stock=fd.StockArray(dims=ds, values=nd(f"S{i}.stock")),
        )
    if nan and names_bal:
        name = names_bal[nan["idx"] % len(names_bal)]
        if name.startswith("F"):
            target = flows[name]
            touched = {desc["flows"][int(name[1:])]["src"], desc["flows"][int(name[1:])]["dst"]}
        else:
            sname, q = name.split(".")
            target = getattr(stocks[sname], q)
            sp = desc["stocks"][int(sname[1:])]["proc"]
            touched = set() if sp is None else {sp, 0}
        target.values.reshape(-1)[nan["pos"] % target.values.size] = np.nan
        if touched:
            expect_fail = True
        elif desc["tol"] == "default" and name.startswith("F"):
            raise Discard("unreachable")
        if desc["tol"] == "default" and not touched:
            raise Discard("NaN only in a stock without process")
    if reuse is None:
        mfa = fd.MFASystem(dims=build.dimset(U), parameters={}, processes=procs, flows=flows, stocks=stocks)
    else:
        # the SAME system object, all values rewritten in place (another scenario / unit / iteration)
        mfa = reuse
        same = set(mfa.flows) == set(flows) and all(tuple(mfa.flows[n].dims.letters) == tuple(flows[n].dims.letters) and mfa.flows[n].from_process.id == flows[n].from_process.id and mfa.flows[n].to_process.id == flows[n].to_process.id for n in flows)
        if not same:
            raise Discard("second round has another closing-flow structure")
        for n in flows:
            how_ = desc.get("rewrite", 0)
            if how_ % 3 == 0:
                mfa.flows[n].values[...] = flows[n].values
            elif how_ % 3 == 1:
                mfa.flows[n][...] = fd.FlodymArray(dims=flows[n].dims, values=flows[n].values)
            else:
                mfa.flows[n].set_values(flows[n].values)
        for i, s_ in enumerate(desc["stocks"]):
            for q in ("inflow", "outflow", "stock"):
                getattr(mfa.stocks[f"S{i}"], q).values[...] = nd(f"S{i}.{q}")
    kw = {"raise_error": desc["raise"]}
    if desc["tol"] == "explicit":
        kw["tolerance"] = tol * unit
    how, err = observe(lambda: mfa.check_mass_balance(**kw))
    classes = ([f"unit:2^{int(desc.get('unit_exp') or 0)}"] if desc.get("unit_exp") else []) + [f"mode:{desc['mode']}", f"tol:{desc['tol']}" + ("=0" if desc.get("zero_tol") and desc["tol"] == "explicit" else ""), "raise" if desc["raise"] else "warn", f"nproc:{desc['nproc']}", f"stocks:{len(desc['stocks'])}", "expect-fail" if expect_fail else "expect-pass"]
    if nan:
        classes.append("nan")
    if any(v is None for v in per_proc.values()):
        classes.append("process-without-flow")
    if not desc["stocks"]:
        classes.append("no-stocks")
    ctx = f"nproc {desc['nproc']} flows {[(f['src'], f['dst'], f['letters']) for f in desc['flows']]} stocks {[(s['proc'], s['letters']) for s in desc['stocks']]} tol {desc['tol']}={tol!r} maxB {float(maxB)!r}"
    if how == "raised" and getattr(err, "_verif_crash", False):
        where = "no-stocks" if not desc["stocks"] else ("process-without-flow" if any(v is None for v in per_proc.values()) else "other")
        raise Violation(f"check_mass_balance-crashes-{where}", f"{type(err).__name__}: {str(err)[:100]}; {ctx}")
    if how == "raised" and not desc["raise"]:
        raise Violation("check_mass_balance-raises-in-warn-mode", f"{str(err)[:100]}; {ctx}")
    failed = how in ("raised", "warned")
    if expect_fail and not failed:
        raise Violation("nan-balance-reported-as-success" if nan else "imbalance-not-reported", ctx)
    if failed and not expect_fail:
        raise Violation("balanced-system-reported-as-failing", f"{how}: {str(err)[:150]}; {ctx}")
    if expect_fail and desc["raise"]:
        require(how == "raised", "failure-not-raised-in-raise-mode", ctx)
    het = len({tuple(sorted(f["letters"])) for f in desc["flows"]}) > 1
    if desc.get("then") and not nan and reuse is None:
        d2 = {k: v for k, v in desc.items() if k != "then"}
        d2.update(desc["then"])
        d2["nan"] = None
        try:
            run_balance(d2, reuse=mfa)
            classes.append("rechecked-same-object-other-magnitude")
        except Discard:
            classes.append("recheck-discarded")
    return {"nontrivial": desc["nproc"] >= 3 or het or bool(desc["stocks"]), "classes": classes}


@st.composite
def systems(draw, uniform):
    U = draw(gen.universes(min_dims=2, max_dims=3, max_len=2 if uniform else 3, with_time=True, kinds=("str", "int")))
    U["dims"][0]["items"] = [2000 + i for i in range(max(2, len(U["dims"][0]["items"])))]
    U["dims"][0]["dtype"] = "int"
    allL = gen.uletters(U)
    nproc = draw(st.integers(1, 5))
    if uniform:
        common = ["t"] + draw(gen.ordered_subtuple(allL[1:]))
    flows = []
    for _ in range(draw(st.integers(0 if not uniform else 1, 7))):
        src, dst = draw(st.integers(0, nproc - 1)), draw(st.integers(0, nproc - 1))
        letters = list(draw(st.permutations(common))) if uniform else draw(gen.ordered_subtuple(allL, min_size=0))
        flows.append({"src": src, "dst": dst, "letters": letters})
    stocks = []
    for _ in range(draw(st.sampled_from([0, 0, 1, 1, 2, 3]))):
        proc = draw(st.sampled_from([None] + list(range(nproc))))
        letters = ["t"] + (list(draw(st.permutations(common[1:]))) if uniform else draw(gen.ordered_subtuple(allL[1:])))
        stocks.append({"proc": proc, "letters": letters})
    return U, nproc, flows, stocks


@st.composite
def balance_cases(draw):
    mode = draw(st.sampled_from(["free", "balanced", "balanced"]))
    U, nproc, flows, stocks = draw(systems(uniform=(mode == "balanced")))
    d = {"universe": U, "nproc": nproc, "flows": flows, "stocks": stocks, "mode": mode, "raise": draw(st.booleans())}
    if mode == "free":
        d["tol"] = "explicit"
        d["tolfactor"] = draw(st.sampled_from([0.5, 2.0, 1.0]))
        d["perturb"] = None
    else:
        d["tol"] = draw(st.sampled_from(["default", "default", "explicit"]))
        d["perturb"] = {"idx": draw(st.integers(0, 30)), "pos": draw(st.integers(0, 50)), "factor": draw(st.sampled_from([0, 0.5, 2, 10, -2, -0.5]))}
        if d["tol"] == "default":
            where = draw(st.sampled_from(["S0.stock", "F0", "F1"]))
            d["big"] = {"where": where, "exp": draw(st.sampled_from([20, 30, 40])), "pos": draw(st.integers(0, 20))}
    d["nan"] = {"idx": draw(st.integers(0, 30)), "pos": draw(st.integers(0, 50))} if draw(st.integers(0, 5)) == 0 else None
    d["unit_exp"] = draw(st.sampled_from([0, 0, 0, -20, -45, -70, 30]))
    if mode == "balanced" and d["tol"] == "explicit" and draw(st.booleans()):
        d["zero_tol"] = True
    if mode == "balanced" and d["tol"] == "default" and draw(st.booleans()):
        # second round on the same object: another magnitude and another perturbation
        d["then"] = {
            "big": dict(d["big"], exp=draw(st.sampled_from([2, 12, 30, 45]))),
            "perturb": {"idx": draw(st.integers(0, 30)), "pos": draw(st.integers(0, 50)), "factor": draw(st.sampled_from([0, 0.5, 2, 10, -2]))},
            "rewrite": draw(st.integers(0, 2)),
            "raise": draw(st.booleans()),
        }
    return d


class Balance(Facet):
    name = "balance"
    examples = {"quick": 16000, "thorough": 480000}
    shards = {"quick": 16, "thorough": 16}

    def strategy(self, tier):
        return balance_cases()

    def run(self, desc):
        return run_balance(desc)


# ------------------------------------------------------------------------- check_flows


def run_flows(desc):
    U = desc["universe"]
    items = build.uitems(U)
    arrs = arrays_of(desc)
    procs = fd.make_processes(["sysenv"] + [f"P{i}" for i in range(1, desc["nproc"])])
    pl = list(procs.values())
    vals = {}
    for i, f in enumerate(desc["flows"]):
        m = arrs[f"F{i}"]
        vals[f"F{i}"] = build.ndarray_from_fn(list(m.letters), items, lambda lab: float(m.get(lab)), float)
    svals = {}
    for i, s in enumerate(desc["stocks"]):
        m = arrs[f"S{i}.stock"]
        svals[i] = build.ndarray_from_fn(list(m.letters), items, lambda lab: float(m.get(lab)), float)
    if desc.get("bigstock") and svals:
        svals[0].reshape(-1)[0] = 2.0 ** desc["bigstock"]
    mag = max([float(np.max(np.abs(v))) for v in vals.values()] + [float(np.max(np.abs(v))) for v in svals.values()])
    tol = 100 * EPS * mag
    expected = set()
    has_nan = False
    for e in desc["edits"]:
        name = f"F{e['flow'] % len(desc['flows'])}"
        v = vals[name].reshape(-1)
        pos = e["pos"] % v.size
        if e["kind"] == "nan":
            v[pos] = np.nan
            has_nan = True
        elif e["kind"] == "neg":
            v[pos] = -3.0
        elif e["kind"] == "just-below":
            v[pos] = -2.0 * tol
        else:
            v[pos] = -0.5 * tol
    if not has_nan:
        mag2 = max([float(np.max(np.abs(v))) for v in vals.values()] + [float(np.max(np.abs(v))) for v in svals.values()])
        if mag2 != mag:
            raise Discard("edit replaced the entry that sets the scale of the tolerance")
    for name, v in vals.items():
        if np.any(np.isnan(v)):
            expected.add(name)
        elif not has_nan and np.any(v < -tol):
            expected.add(name)
    unit = 2.0 ** int(desc.get("unit_exp") or 0)  # exact rescaling of the whole system (see run_balance)
    if unit != 1.0:
        for v in list(vals.values()) + list(svals.values()):
            v *= unit
        tol *= unit
    undecided = set()
    if has_nan:  # 'the tolerance' is undefined in a system holding a NaN: negative flows not asserted
        undecided = {n for n, v in vals.items() if not np.any(np.isnan(v)) and np.any(v < 0)}
    flows = {n: fd.Flow(dims=build.dimset(U, f["letters"]), values=vals[n], name=n, from_process=pl[f["src"]], to_process=pl[f["dst"]]) for n, f in ((f"F{i}", f) for i, f in enumerate(desc["flows"]))}
    stocks = {}
    for i, s in enumerate(desc["stocks"]):
        ds = build.dimset(U, s["letters"])
        stocks[f"S{i}"] = fd.SimpleFlowDrivenStock(dims=ds, name=f"S{i}", process=None if s["proc"] is None else pl[s["proc"]], stock=fd.StockArray(dims=ds, values=svals[i]))
    mfa = fd.MFASystem(dims=build.dimset(U), parameters={}, processes=procs, flows=flows, stocks=stocks)
    ctx = f"flows {sorted(vals)} expected {sorted(expected)} stocks {len(stocks)} tol {tol!r}"
    # single-flow verdicts without parsing messages
    for name in vals:
        if name in undecided:
            continue
        others = [n for n in vals if n != name]
        how, err = observe(lambda: mfa.check_flows(exceptions=others, raise_error=True, verbose=bool(desc.get("verbose"))))
        if how == "raised" and getattr(err, "_verif_crash", False):
            raise Violation("check_flows-crashes-" + ("no-stocks" if not stocks and not desc.get("verbose") else ("verbose" if desc.get("verbose") else "other")), f"{type(err).__name__}: {str(err)[:100]}; {ctx}")
        flagged = how == "raised"
        if name in expected and not flagged:
            raise Violation("check_flows-misses-flow", f"{name} holds {'NaN' if np.any(np.isnan(vals[name])) else 'an entry below -tolerance'} but was not flagged; {ctx}")
        if flagged and name not in expected:
            raise Violation("check_flows-flags-clean-flow", f"{name}: min {float(np.nanmin(vals[name]))!r}; {ctx}")
    if not undecided:
        for raise_error in (True, False):
            how, err = observe(lambda: mfa.check_flows(raise_error=raise_error, verbose=bool(desc.get("verbose"))))
            flagged = how in ("raised", "warned")
            require(flagged == bool(expected), "check_flows-overall-verdict", f"{how} with raise_error={raise_error}; {ctx}")
            if not raise_error:
                require(how != "raised", "check_flows-crashes-verbose" if desc.get("verbose") else "check_flows-raises-in-warn-mode", f"{type(err).__name__ if err else ''}: {str(err)[:80]}; {ctx}")
                # which flows the warnings name: every violating flow, and no other (flow names F<i> are
                # distinct tokens that occur in no item label)
                named = {n for n in vals if any(re.search(rf"(?<![A-Za-z0-9_]){n}(?![A-Za-z0-9_])", m) for m in LAST_WARNINGS)}
                require(expected <= named, "check_flows-warnings-miss-flow", f"warnings name {sorted(named)}; {ctx}")
                require(named <= expected, "check_flows-warnings-name-clean-flow", f"warnings name {sorted(named)}; {ctx}")
        # excepted flows are never reported
        how, err = observe(lambda: mfa.check_flows(exceptions=sorted(vals), raise_error=True))
        require(how == "ok", "check_flows-reports-excepted-flow", ctx)
    kinds = sorted({e["kind"] for e in desc["edits"]})
    return {"nontrivial": len(vals) >= 2 and bool(desc["edits"]), "classes": [f"edit:{k}" for k in kinds] + (["no-stocks"] if not stocks else []) + [f"flagged:{min(len(expected), 3)}"]}


@st.composite
def flow_cases(draw):
    U, nproc, flows, stocks = draw(systems(uniform=False))
    if not flows:
        flows = [{"src": 0, "dst": 0, "letters": ["t"]}]
    edits = [
        {"flow": draw(st.integers(0, 10)), "pos": draw(st.integers(0, 50)), "kind": draw(st.sampled_from(["nan", "nan", "neg", "neg", "just-below", "just-above", "just-above"]))}
        for _ in range(draw(st.integers(0, 4)))
    ]
    return {"universe": U, "nproc": nproc, "flows": flows, "stocks": stocks, "edits": edits, "bigstock": draw(st.sampled_from([None, None, 30])), "verbose": draw(st.booleans()), "unit_exp": draw(st.sampled_from([0, 0, -20, -45, -70, 30]))}


class Flows(Facet):
    name = "flows"
    examples = {"quick": 8000, "thorough": 360000}
    shards = {"quick": 16, "thorough": 16}

    def strategy(self, tier):
        return flow_cases()

    def run(self, desc):
        return run_flows(desc)


Prop(
    "C02",
    "exploration",
    "balance: generated systems (sysenv + 0-4 processes, 0-7 flows with arbitrary endpoints incl. parallel, opposing and "
    "self-loop flows over their own ordered dimension subsets, 0-3 stocks with/without process, processes without any flow, "
    "systems without stocks); 'free' systems judged with an explicit tolerance half / twice the reference max|B|, 'balanced' "
    "systems closed exactly by computed flows and then perturbed in one entry by 0, +-0.5, +-2 or 10 x tolerance (explicit or the "
    "default 100 eps max magnitude, the magnitude set by a 2^20..2^40 entry); NaN injected into a flow or stock flow in 1 of 6 "
    "cases; both raise_error modes. Oracle: balance per process recomputed with Fractions from the descriptor (contributions summed "
    "to their common dims); expected = fails iff max|B| > tol or NaN; observed = exception or WARNING record. flows: check_flows "
    "verdict per flow via exceptions=all others for entries NaN / -3 / -2 tol / -0.5 tol. Non-trivial = >= 2 non-sysenv processes, "
    "flows of differing dimensionality, or a stock attached.",
    [Balance(), Flows()],
    assumptions=[
        "the processes dict contains 'sysenv' (the property books stock changes there)",
        "cases whose exact max|B| lies within 4 x (a-priori float summation noise) of the tolerance are discarded and counted",
        "NaN is never injected into stock levels (they only scale the default tolerance); with a NaN present check_flows is asserted only for NaN flows and clean non-negative flows",
        "default-tolerance cases need >= 1 flow (the precision is taken from the first flow's dtype)",
    ],
)
