"""C15 - operations never modify their inputs, and results are independent objects.

Facet ``ops``: a catalogue of every public non-in-place operation x generated arrays.  Deep
snapshots of all inputs before/after; for the results the statement lists as independent (copy,
arithmetic, cast_to, full_like, slice reads, and the dims of any newly built array) a behavioural
write-through probe in both directions.
"""
from __future__ import annotations

import numpy as np
import pandas as pd
from hypothesis import strategies as st

from props.c06_index import make_key, selectors
from vlib import build, gen
from vlib.build import fd
from vlib.runner import Facet, Prop, Violation, require

OPS = [
    "add", "sub", "mul", "div", "pow", "min", "max", "radd", "rsub", "rmul", "rdiv", "add_num", "neg", "abs", "abs_m",
    "identity_ops", "identity_ops", "sum_builtin", "sign", "sum_to", "sum_over", "sum_nothing", "cumsum", "apply", "cast_to", "cast_same", "shares", "getitem",
    "getitem", "getitem_ellipsis", "getitem_bare", "copy", "full_like", "full", "from_superset", "constructor",
    "to_df", "from_df", "split", "stack", "setitem_ndarray", "setitem_array", "stock", "lifetime", "system", "dimset_ops", "plot",
]
INDEPENDENT = {
    "identity_ops", "sum_builtin", "add", "sub", "mul", "div", "pow", "min", "max", "radd", "rsub", "rmul", "rdiv", "add_num", "neg", "abs", "abs_m",
    "sign", "cast_to", "cast_same", "getitem", "getitem_ellipsis", "getitem_bare", "copy", "full_like", "split",
}
SENT = -12345.0
EXTRA = dict(letter="z", name="Zeta", items=["z0", "z1"])


def snap_all(objs):
    out = {}
    for k, o in objs.items():
        if isinstance(o, fd.FlodymArray):
            out[k] = build.snapshot(o)
        elif isinstance(o, fd.DimensionSet):
            out[k] = build.snapshot_dims(o)
        elif isinstance(o, np.ndarray):
            out[k] = (o.shape, o.tobytes())
        elif hasattr(o, "equals"):
            out[k] = o.copy(deep=True)
        else:
            out[k] = repr(o)
    return out


def same_snap(a, b):
    for k in a:
        if hasattr(a[k], "equals"):
            if not (a[k].equals(b[k]) and list(a[k].columns) == list(b[k].columns) and a[k].index.equals(b[k].index)):
                return k
        elif a[k] != b[k]:
            return k
    return None


def run_case(desc):
    U, op = desc["universe"], desc["op"]
    x = build.array(U, desc["x"])
    y = build.array(U, desc["y"])
    ds = build.dimset(U)
    inputs = {"x": x, "y": y, "ds": ds}
    results = []  # FlodymArray results
    xl = desc["x"]["letters"]
    classes = [f"op:{op}", f"ndim:{len(xl)}"]

    if op == "from_df":
        df = x.to_df(index=desc["flag"])
        if desc.get("k", 0) % 3 == 0:
            # a hand-made table: calendar years in a plain unnamed index, one column per item or a value column
            yd = fd.Dimension(letter="y", name="Year", items=[1990, 2000, 2010, 2020], dtype=int)
            yds = fd.DimensionSet(dim_list=[yd]) if desc["flag"] else fd.DimensionSet(dim_list=[yd, x.dims[0]])
            inputs["ydims"] = yds
            if desc["flag"]:
                df = pd.DataFrame({"value": [1.0, 2.0, 3.0, 4.0]}, index=list(yd.items))
            else:
                its = list(x.dims[0].items)
                df = pd.DataFrame(np.arange(4.0 * len(its)).reshape(4, len(its)) + 1.0, index=list(yd.items), columns=its)
        inputs["df"] = df
    if op == "setitem_ndarray":
        nd = np.full(x.values.shape, 2.5)
        inputs["nd"] = nd
    if op in ("stock", "system"):
        tU = {"dims": [{"letter": "t", "name": "Time", "items": [2000, 2001, 2003, 2006], "dtype": "int"}] + [d for d in U["dims"] if d["letter"] in xl]}
        tl = ["t"] + [l for l in gen.uletters(U) if l in xl]
        inflow = build.array(tU, {"letters": tl, "mode": "coded", "tag": "x"}, cls=fd.StockArray)
        outflow = build.array(tU, {"letters": tl, "mode": "coded", "tag": "y"}, cls=fd.StockArray)
        tds = build.dimset(tU, tl)
        inputs.update(inflow=inflow, outflow=outflow, tds=tds)
    before = snap_all(inputs)

    if op == "add":
        results.append(x + y)
    elif op == "sub":
        results.append(x - y)
    elif op == "mul":
        results.append(x * y)
    elif op == "div":
        results.append(x / y)
    elif op == "pow":
        results.append(x**2)
    elif op == "min":
        results.append(x.minimum(y))
    elif op == "max":
        results.append(x.maximum(y))
    elif op == "radd":
        results.append(2 + x)
    elif op == "rsub":
        results.append(2 - x)
    elif op == "rmul":
        results.append(2 * x)
    elif op == "rdiv":
        results.append(2 / x)
    elif op == "add_num":
        results.append(x + 0)
    elif op == "identity_ops":
        # arithmetic with neutral elements is still arithmetic: the result is a new, independent array
        k_ = desc.get("k", 0) % 12
        results.append([lambda: 0 + x, lambda: x + 0, lambda: x - 0, lambda: 1 * x, lambda: x * 1, lambda: x / 1, lambda: x**1,
                        lambda: 0.0 + x, lambda: False + x, lambda: x * 1.0, lambda: x.minimum(x), lambda: x.maximum(x)][k_]())
    elif op == "sum_builtin":
        # the builtin sum() starts from the int 0 (used for the per-process balance)
        results.append(sum([x]) if desc["flag"] else sum([x, x]))
    elif op == "neg":
        results.append(-x)
    elif op == "abs":
        results.append(abs(x))
    elif op == "abs_m":
        results.append(x.abs())
    elif op == "sign":
        results.append(x.sign())
    elif op == "sum_to":
        results.append(x.sum_to(tuple(xl[: max(1, len(xl) - 1)])))
    elif op == "sum_over":
        results.append(x.sum_over(tuple(xl[:1])))
    elif op == "sum_nothing":
        results.append(x.sum_to(tuple(xl)))
    elif op == "cumsum":
        results.append(x.cumsum(xl[0]))
    elif op == "apply":
        results.append(x.apply(np.exp2))
    elif op == "cast_to":
        results.append(x.cast_to(ds))
    elif op == "cast_same":
        results.append(x.cast_to(x.dims))
    elif op == "shares":
        results.append(x.get_shares_over(tuple(xl[:1])))
    elif op == "getitem":
        results.append(x[make_key(U, desc["sel"], desc["syntax"])])
    elif op == "getitem_ellipsis":
        results.append(x[...])
    elif op == "getitem_bare":
        results.append(x[build.udim(U, xl[0])["items"][0]])
    elif op == "copy":
        results.append(x.copy())
    elif op == "full_like":
        if desc["k"] % 3 == 0 or not xl:
            results.append(fd.FlodymArray.full_like(x, 3.0))
        else:
            # the fill value may be an ndarray of the full shape (of the result's dtype or another one): it is an input
            fill = np.arange(float(x.values.size)).reshape(x.values.shape) + 0.5
            if desc["k"] % 3 == 2:
                fill = fill.astype(x.values.dtype)
            keep_fill = fill.copy()
            r_ = fd.FlodymArray.full_like(x, fill)
            results.append(r_)
            require(not np.shares_memory(r_.values, fill), "result-values-alias-input", "full_like: the result shares memory with the ndarray given as fill value")
            r_.values[...] = SENT
            require(np.array_equal(fill, keep_fill), "result-values-alias-input", "full_like: writing into the result changed the ndarray given as fill value")
            r_.values[...] = keep_fill
            classes.append("full_like:ndarray-fill")
    elif op == "full":
        results.append(fd.FlodymArray.full(ds, 3.0))
    elif op == "from_superset":
        results.append(fd.FlodymArray.from_dims_superset(ds, tuple(xl)))
    elif op == "constructor":
        results.append(fd.FlodymArray(dims=ds))
        results.append(fd.Parameter(dims=x.dims, values=np.array(x.values)))
    elif op == "to_df":
        d1 = x.to_df(index=desc["flag"])
        d1.iloc[:, -1] = SENT
    elif op == "from_df":
        results.append(fd.FlodymArray.from_df(dims=inputs.get("ydims", x.dims), df=df))
    elif op == "split":
        results.extend(x.split(xl[0]).values())
    elif op == "stack":
        from flodym.flodym_array_helper import flodym_array_stack

        results.append(flodym_array_stack([x, x], fd.Dimension(letter="S", name="Stacked", items=["s0", "s1"])))
    elif op == "setitem_ndarray":
        t = fd.FlodymArray(dims=x.dims)
        # the assigned ndarray may be a write-protected view or an instance of an ndarray subclass
        given = nd
        flavour = ["plain", "plain", "readonly", "subclass", "fortran", "plain"][desc["k"] % 6] if nd.ndim >= 1 else "plain"
        if flavour == "readonly":
            given = nd.view()
            given.setflags(write=False)
        elif flavour == "subclass":
            from props.c05_assign import _NdSub

            given = nd.view(_NdSub)
        elif flavour == "fortran":
            given = nd = np.asfortranarray(nd)
        classes.append(f"ndarray:{flavour}")
        if desc["flag"]:
            t[...] = given
        else:
            t[{}] = given
        tsnap = build.snapshot(t)
        require(not np.shares_memory(t.values, nd), "assigned-ndarray-not-copied", f"target shares memory with the assigned ndarray ({flavour})")
        require(bool(t.values.flags.writeable), "assigned-ndarray-not-copied", f"target values not writeable after assignment ({flavour})")
        nd[...] = SENT
        require(build.snapshot(t) == tsnap, "assigned-ndarray-not-copied", "target follows later changes of the ndarray")
        t.values[...] = 1.0
        require(np.all(nd == SENT), "assigned-ndarray-not-copied", "writing into the target changed the assigned ndarray")
        inputs.pop("nd")
        before.pop("nd")
    elif op == "setitem_array":
        # a declared array receives a FlodymArray source (same dims, possibly permuted); afterwards the two
        # are independent in both directions
        t = fd.FlodymArray(dims=x.dims.get_subset(tuple(reversed(xl))) if desc["flag"] else x.dims)
        t[...] = x
        tsnap = build.snapshot(t)
        t2 = fd.FlodymArray(dims=x.dims)
        t2[...] = x
        t2.values[...] = SENT
        k = same_snap(before, snap_all(inputs))
        require(k is None, "assigned-array-aliases-source", f"writing into the target of target[...] = x changed '{k}'")
        require(build.snapshot(t) == tsnap, "assigned-array-aliases-source", "two targets assigned from one source share memory")
        xk = np.array(x.values, copy=True)
        x.values[...] = SENT
        require(build.snapshot(t) == tsnap, "assigned-array-aliases-source", "writing into the source changed the target")
        x.values[...] = xk
    elif op == "stock":
        s = fd.SimpleFlowDrivenStock(dims=tds, inflow=inflow, outflow=outflow, name="s")
        d = fd.InflowDrivenDSM(dims=tds, inflow=inflow, lifetime_model=fd.NormalLifetime(dims=tds, mean=3.0, std=1.0))
        results.append(s.stock)
        # computing fills the models' own result arrays; the DRIVERS handed in (inflow, prescribed stock) stay as they are
        d.compute()
        for solver in ("manual", "lapack"):
            sd_ = fd.StockDrivenDSM(dims=tds, stock=outflow, lifetime_model=fd.NormalLifetime(dims=tds, mean=3.0, std=1.0), solver=solver)
            sd_.compute()
        classes.append("stock-models-computed")
    elif op == "lifetime":
        tU2 = {"dims": [{"letter": "t", "name": "Time", "items": [2000, 2001, 2003], "dtype": "int"}] + [d for d in U["dims"] if d["letter"] in xl]}
        tl2 = ["t"] + [l for l in gen.uletters(U) if l in xl]
        mdl = fd.LogNormalLifetime(dims=build.dimset(tU2, tl2), mean=abs(x) + 1, std=1.0)
        _ = mdl.sf
    elif op == "system":
        procs = fd.make_processes(["sysenv", "use"])
        flow = fd.Flow(dims=x.dims, values=np.array(x.values), from_process=procs["sysenv"], to_process=procs["use"], name="f")
        inputs["flow"] = flow
        before["flow"] = build.snapshot(flow)
        st_ = fd.SimpleFlowDrivenStock(dims=tds, inflow=inflow, outflow=outflow, name="s", process=procs["use"])
        par = fd.Parameter(dims=y.dims, values=np.array(y.values), name="p")
        inputs["par"] = par
        before["par"] = build.snapshot(par)
        sysds = build.dimset({"dims": tU["dims"] + [d for d in U["dims"] if d["letter"] not in xl]})
        mfa = fd.MFASystem(dims=sysds, parameters={"p": par}, processes=procs, flows={"f": flow}, stocks={"s": st_})
        from flodym.export import convert_to_dict

        convert_to_dict(mfa)
        convert_to_dict(mfa, type="pandas")
        try:
            mfa.check_mass_balance(raise_error=False)
        except Exception:
            pass
    elif op == "plot":
        from flodym.export import PlotlyArrayPlotter

        x1 = x.sum_to(tuple(xl[:1]))
        inputs["x1"] = x1
        before["x1"] = build.snapshot(x1)
        xa = fd.FlodymArray(dims=x1.dims, values=np.arange(float(x1.values.size)).reshape(x1.values.shape))
        inputs["xa"] = xa
        before["xa"] = build.snapshot(xa)
        PlotlyArrayPlotter(array=x1, intra_line_dim=xl[0], x_array=xa).plot()
    elif op == "dimset_ops":
        sub = ds.get_subset(tuple(xl))
        other = x.dims
        zd = fd.Dimension(**EXTRA)
        outs = [ds.append(zd), ds.prepend(zd), ds.insert(1, zd), ds.expand_by([zd]), ds.drop(ds.letters[-1]),
                ds.replace(ds.letters[0], zd), ds.drop(ds.names[0])]
        k = same_snap(before, snap_all(inputs))
        require(k is None, "input-modified", f"out-of-place DimensionSet mutator changed its receiver '{k}'")
        for r in outs:
            if len(r) > 0:
                r.drop(r.letters[0], inplace=True)
        for r in (ds | other, ds & other, ds - other, ds ^ other, ds.get_subset(), ds.copy(), sub):
            if len(r) > 0:
                r.drop(r.letters[0], inplace=True)
            r.append(fd.Dimension(**EXTRA), inplace=True)

    after = snap_all(inputs)
    k = same_snap(before, after)
    require(k is None, "input-modified", f"{op} changed its input '{k}'")

    # --- independence probes --------------------------------------------------------
    for res in results:
        require(tuple(res.values.shape) == tuple(res.dims.shape), "result-shape", op)
        # dims of any newly built array are its own
        res.dims.append(fd.Dimension(**EXTRA), inplace=True)
        k = same_snap(before, snap_all(inputs))
        require(k is None, "result-dims-shared-with-input", f"{op}: appending to the result's dims changed '{k}'")
        res.dims.drop("z", inplace=True)
        if len(res.dims) > 0:
            first = res.dims[0]
            res.dims.drop(first.letter, inplace=True)
            k = same_snap(before, snap_all(inputs))
            require(k is None, "result-dims-shared-with-input", f"{op}: dropping from the result's dims changed '{k}'")
            res.dims.insert(0, first, inplace=True)
    if op in INDEPENDENT:
        classes.append("write-through-probed")
        for res in results:
            keep = np.array(res.values, copy=True)
            # forward: write into the result (it must be an array of its own that can be written to)
            require(bool(getattr(res.values, "flags", None) is not None and res.values.flags.writeable), "result-values-read-only", f"{op}: the result's values cannot be written to (a read-only view of something else)")
            res.values[...] = SENT
            k = same_snap(before, snap_all(inputs))
            require(k is None, "result-values-alias-input", f"{op}: writing into the result changed input '{k}' (dims {xl}, key {desc.get('sel')})")
            res.values[...] = keep
            # backward: write into the inputs
            xk, yk = np.array(x.values, copy=True), np.array(y.values, copy=True)
            x.values[...] = SENT
            y.values[...] = SENT
            require(np.array_equal(res.values, keep), "result-values-alias-input", f"{op}: writing into an input changed the result")
            x.values[...] = xk
            y.values[...] = yk
            # and the input's dims
            x.dims.append(fd.Dimension(**EXTRA), inplace=True)
            require("z" not in res.dims.letters, "result-dims-shared-with-input", f"{op}: editing the input's dims changed the result's")
            x.dims.drop("z", inplace=True)
    nontrivial = len(xl) >= 2 and op in ("getitem", "getitem_ellipsis", "getitem_bare", "cast_same", "split", "copy", "add_num", "sum_nothing")
    return {"nontrivial": nontrivial or (op in INDEPENDENT and len(xl) >= 2), "classes": classes}


@st.composite
def cases(draw):
    U = draw(gen.universes(min_dims=2, max_dims=4, max_len=3))
    op = draw(st.sampled_from(OPS))
    elems = st.floats(0.5, 9.0)
    x = draw(gen.arrays(U, modes=("float",), tag="x", min_dims=1, elems=elems))
    y = draw(gen.arrays(U, modes=("float",), tag="y", min_dims=0, elems=elems))
    d = {"universe": U, "op": op, "x": x, "y": y, "flag": draw(st.booleans()), "k": draw(st.integers(0, 11))}
    if op == "getitem":
        d["sel"] = draw(selectors(U, x["letters"], allow_list=False))
        d["syntax"] = draw(st.sampled_from(["dict_letter", "dict_name"]))
    return d


class Ops(Facet):
    name = "ops"
    examples = {"quick": 12000, "thorough": 600000}
    shards = {"quick": 16, "thorough": 16}

    def strategy(self, tier):
        return cases()

    def run(self, desc):
        return run_case(desc)


Prop(
    "C15",
    "exploration",
    "Catalogue of 40 public non-in-place operations x generated arrays (1-4 dims, any order): deep snapshots (value bytes, "
    "dims letters/names/items, DataFrames via equals) of every input before and after; for results the statement lists as "
    "independent (copy, arithmetic incl. reflected/number forms, cast_to, full_like, slice reads with every key form, split) "
    "a write-through probe in both directions on values and on the dimension set; the dims of every newly built array are "
    "edited in place (append/drop) and must not reach any input. Non-trivial = operation on an array with >= 2 dims where a "
    "view would be possible.",
    [Ops()],
    assumptions=[
        "results of reductions (sum_to with nothing to sum is an einsum view) and the values handed to a constructor are not in the statement's list of independent results and are only checked for not modifying inputs",
    ],
)
