"""C08 - survival tables are valid and equal the declared lifetime distribution.

Facet ``tables``  : generated models x parameters (scalar / per label / per cohort, any dim order) x
                    inflow_at x 1-10 quadrature points x grids; structural invariants plus entry-by-
                    entry agreement with closed-form survival functions (math.erfc / exp / log) and
                    independently derived Gauss-Lobatto rules.
Facet ``quadrature``: the ten tabulated rules, exhaustively.
"""
from __future__ import annotations

import itertools
import math

import numpy as np
from hypothesis import strategies as st

from vlib import build, gen, stockgen as sg
from vlib.runner import Facet, Prop, Violation, require

SQ2 = math.sqrt(2.0)


def S_normal(x, mean, std):
    return 0.5 * math.erfc((x - mean) / (std * SQ2))


def S_folded(x, mean, std):
    if x <= 0:
        return 1.0
    return 0.5 * math.erfc((x - mean) / (std * SQ2)) + 0.5 * math.erfc((x + mean) / (std * SQ2))


def S_lognormal(x, mean, std):
    if x <= 0:
        return 1.0
    s2 = math.log(1.0 + std * std / (mean * mean))
    mu = math.log(mean * mean / math.sqrt(mean * mean + std * std))
    return 0.5 * math.erfc((math.log(x) - mu) / (math.sqrt(s2) * SQ2))


def S_weibull(x, shape, scale):
    if x <= 0:
        return 1.0
    return math.exp(-((x / scale) ** shape))


def lobatto(n):
    """n-point Gauss-Lobatto rule on [-1, 1], derived from Legendre polynomials."""
    from numpy.polynomial import legendre as L

    if n == 1:
        return [0.0], [2.0]
    P = L.Legendre.basis(n - 1)
    inner = sorted(float(r.real) for r in P.deriv().roots()) if n > 2 else []
    nodes = [-1.0] + inner + [1.0]
    w = [2.0 / (n * (n - 1) * float(P(x)) ** 2) for x in nodes]
    return nodes, w


def eta_weights(lt):
    n = lt["n_pts"]
    if n > 1:
        nodes, w = lobatto(n)
        return [(x + 1) / 2 for x in nodes], [wi / 2 for wi in w]
    return [{"start": 0.0, "middle": 0.5, "end": 1.0}[lt["inflow_at"]]], [1.0]


def configured_model(cfg, how, other):
    """The declared settings reach the model by another public route than the constructor."""
    U = sg.universe_of(cfg)
    lt = cfg["lt"]
    if how == "stock-class":
        # a stock given the model *class* creates the instance itself; settings and parameters follow
        dims = build.dimset(U, gen.uletters(U))
        dsm = build.fd.InflowDrivenDSM(dims=dims, lifetime_model=getattr(build.fd, lt["cls"]), name="s")
        mdl = dsm.lifetime_model
        mdl.inflow_at = lt["inflow_at"]
        mdl.n_pts_per_interval = lt["n_pts"]
        mdl.set_prms(**{k: sg.build_prm(U, p) for k, p in lt["prms"].items()})
        return mdl
    mdl = sg.build_lifetime(U, dict(lt, inflow_at=other["inflow_at"], n_pts=other["n_pts"]))
    if how == "assign-after-use":
        _ = mdl.sf, mdl.pdf
    mdl.inflow_at = lt["inflow_at"]
    mdl.n_pts_per_interval = lt["n_pts"]
    if how == "assign-after-use":
        mdl.set_prms(**{k: sg.build_prm(U, p) for k, p in lt["prms"].items()})
    return mdl


def run_tables(desc):
    cfg = desc["cfg"]
    out = check_model(cfg, None)
    if desc.get("touch_after_read") and sg.lt_varies(cfg["lt"]):
        # the caller keeps its parameter arrays and updates them in place after the tables were read (next scenario);
        # whatever the model holds afterwards, its tables must agree with its OWN public parameter attributes
        U = sg.universe_of(cfg)
        letters = gen.uletters(U)
        handed = {k: sg.build_prm(U, p) for k, p in cfg["lt"]["prms"].items()}
        if desc["touch_after_read"] == "set_prms":
            mdl = getattr(build.fd, cfg["lt"]["cls"])(dims=build.dimset(U, letters), time_letter="t", inflow_at=cfg["lt"].get("inflow_at", "middle"), n_pts_per_interval=cfg["lt"].get("n_pts", 1))
            mdl.set_prms(**handed)
        else:
            mdl = getattr(build.fd, cfg["lt"]["cls"])(dims=build.dimset(U, letters), time_letter="t", inflow_at=cfg["lt"].get("inflow_at", "middle"), n_pts_per_interval=cfg["lt"].get("n_pts", 1), **handed)
        _ = mdl.sf, mdl.pdf
        for a_ in handed.values():
            if hasattr(a_, "values"):
                a_.values[...] = a_.values * 1.5
        own = {}
        for name in cfg["lt"]["prms"]:
            arr_ = np.asarray(getattr(mdl, name), float)
            own[name] = {"kind": "array", "letters": letters, "vals": [float(v) for v in arr_.reshape(-1)]}
        check_model(dict(cfg, lt=dict(cfg["lt"], prms=own)), mdl, pre="tables-vs-own-parameters-")
        out["classes"].append("caller-updated-its-arrays-after-read")
    if desc.get("use_in_sdsm"):
        # the model is used by a stock-driven DSM (which only READS the tables); afterwards the tables are still
        # those of the declared distribution - also where the survival share within the first interval is zero
        U = sg.universe_of(cfg)
        mdl = sg.build_lifetime(U, cfg["lt"])
        dims = build.dimset(U, gen.uletters(U))
        shape = tuple(len(d["items"]) for d in U["dims"])
        import warnings

        for solver in (("manual", "lapack") if desc["use_in_sdsm"] == "both" else (desc["use_in_sdsm"],)):
            sd_ = build.fd.StockDrivenDSM(dims=dims, stock=build.fd.StockArray(dims=dims, values=np.full(shape, 5.0)), lifetime_model=mdl, solver=solver, name="s")
            with warnings.catch_warnings():
                warnings.simplefilter("ignore")
                try:
                    sd_.compute()
                except Exception:
                    pass  # a singular table (nothing survives its first interval) may be refused by the solver
        check_model(cfg, mdl, pre="after-use-in-stock-driven-model-")
        out["classes"].append("used-in-stock-driven-model")
    if desc.get("configure"):
        c = desc["configure"]
        check_model(cfg, configured_model(cfg, c["how"], c), pre="settings-assigned-")
        out["classes"].append("settings-by:" + c["how"])
    if desc.get("reprm"):
        # the same model object gets new parameters (some of them possibly unchanged): the tables must follow
        U = sg.universe_of(cfg)
        mdl = sg.build_lifetime(U, cfg["lt"])
        _ = mdl.sf, mdl.pdf
        new = dict(cfg["lt"]["prms"])
        new.update(desc["reprm"])
        mdl.set_prms(**{k: sg.build_prm(U, p) for k, p in new.items()})
        check_model(dict(cfg, lt=dict(cfg["lt"], prms=new)), mdl, pre="after-set_prms-")
        out["classes"].append("re-parameterised:" + ("all" if len(desc["reprm"]) == len(new) else "first-only" if list(desc["reprm"]) == list(new)[:1] else "some"))
    return out


def check_model(cfg, mdl, pre=""):
    lt = cfg["lt"]
    U = sg.universe_of(cfg)
    letters = gen.uletters(U)
    if mdl is None:
        mdl = sg.build_lifetime(U, lt)
    sf = np.array(mdl.sf, float)
    pdf = np.array(mdl.pdf, float)
    grid = cfg["grid"]
    n = len(grid)
    shape = tuple(len(d["items"]) for d in U["dims"])
    require(sf.shape == (n,) + shape and pdf.shape == (n,) + shape, "table-shape", f"{sf.shape} {pdf.shape}")
    eps = 1e-12
    # ---- structural ----------------------------------------------------------------
    require(np.all(np.isfinite(sf)) and np.all(np.isfinite(pdf)), "non-finite-table", lt["cls"])
    for t in range(n):
        for c in range(t + 1, n):
            require(np.all(sf[t, c] == 0), "survival-nonzero-for-later-cohort", f"t={t} c={c}")
            require(np.all(pdf[t, c] == 0), "pdf-nonzero-for-later-cohort", f"t={t} c={c}")
    require(np.all(sf >= -eps) and np.all(sf <= 1 + eps), "survival-outside-unit-interval", f"min {sf.min()} max {sf.max()}")
    require(np.all(pdf >= -eps), "negative-outflow-probability", f"min {pdf.min()}")
    for c in range(n):
        col = sf[c:, c]
        require(np.all(np.diff(col, axis=0) <= eps), "survival-increases-with-age", f"cohort {c}")
        cum = np.cumsum(pdf[c:, c], axis=0)
        require(np.max(np.abs(col + cum - 1.0)) <= 1e-11, f"{pre}survival-plus-outflow-not-one", f"cohort {c}: {np.max(np.abs(col + cum - 1.0)):.3g}")
    # ---- differential against closed forms -------------------------------------------
    bounds = sg.documented_bounds(grid)
    nice_grid = all(float(x) * 8 == int(float(x) * 8) and abs(x) < 2**20 for x in grid)
    etas, ws = eta_weights(lt)
    pf = {name: sg.prm_value_fn(U, p) for name, p in lt["prms"].items()}
    items = build.uitems(U)
    cls = lt["cls"]
    worst = 0.0
    for c in range(n):
        for idx in itertools.product(*[range(k) for k in shape[1:]]):
            lab = {"t": grid[c]}
            for l, i in zip(letters[1:], idx):
                lab[l] = items[l][i]
            th = {name: f(lab) for name, f in pf.items()}
            for t in range(c, n):
                got = sf[(t, c) + idx]
                lo = hi = 0.0
                for eta, w in zip(etas, ws):
                    age = bounds[t + 1] - (bounds[c] + eta * (bounds[c + 1] - bounds[c]))
                    if cls == "FixedLifetime":
                        m = th["mean"]
                        if eta in (0.0, 0.5, 1.0) and nice_grid and float(m) * 8 == int(float(m) * 8):
                            # grid, inflow instant and lifetime are small dyadic numbers: the age is exact in floating
                            # point, so a tie (age == lifetime) is decided by the distribution itself: P(T > age) = 0
                            from fractions import Fraction as Fr

                            e_ = Fr(eta)
                            age_x = Fr(bounds[t + 1]) - (Fr(bounds[c]) + e_ * (Fr(bounds[c + 1]) - Fr(bounds[c])))
                            v = 1.0 if age_x < Fr(float(m)) else 0.0
                            lo += w * v
                            hi += w * v
                            continue
                        lo += w * (1.0 if age < m - 1e-9 else 0.0)
                        hi += w * (1.0 if age < m + 1e-9 else 0.0)
                        continue
                    if cls == "NormalLifetime":
                        v = S_normal(age, th["mean"], th["std"])
                    elif cls == "FoldedNormalLifetime":
                        v = S_folded(age, th["mean"], th["std"])
                    elif cls == "LogNormalLifetime":
                        v = S_lognormal(age, th["mean"], th["std"])
                    else:
                        v = S_weibull(age, th["weibull_shape"], th["weibull_scale"])
                    lo += w * v
                    hi += w * v
                if not (lo - 1e-9 <= got <= hi + 1e-9):
                    raise Violation(
                        f"{pre}survival-differs-from-{cls}",
                        f"sf[t={t},c={c},{idx}] = {got!r}, closed form in [{lo!r},{hi!r}]; prms {th}; n_pts {lt['n_pts']} inflow_at {lt['inflow_at']}; grid {grid}",
                    )
                worst = max(worst, abs(got - lo))
    cl = [f"lt:{cls}", f"grid:{sg.grid_kind(grid)}", f"n_pts:{lt['n_pts']}", f"extra:{len(cfg['extra'])}"]
    if sg.lt_varies(lt):
        cl.append("prm-varies")
    if any(p["kind"] == "array" and "t" in p["letters"] for p in lt["prms"].values()):
        cl.append("prm-per-cohort")
    if any(p["kind"] == "array" and gen.is_permuted(U, p["letters"]) for p in lt["prms"].values()):
        cl.append("prm-permuted")
    return {"nontrivial": sg.lt_varies(lt) or lt["n_pts"] > 1 or sg.grid_kind(grid) == "uneven", "classes": cl}


@st.composite
def table_cases(draw, max_n=8):
    grid = draw(sg.grids(max_n=max_n, long_grid=15))
    cfg = {"grid": grid, "extra": draw(sg.extras(max_extra=2))}
    cfg["lt"] = draw(sg.lifetime_descs(sg.universe_of(cfg)))
    d = {"cfg": cfg}
    if draw(st.integers(0, 2)) == 0:
        new = draw(sg.lifetime_descs(sg.universe_of(cfg), classes=(cfg["lt"]["cls"],)))["prms"]
        names = list(new)
        keep = draw(st.sampled_from(["all", "first", "last"]))
        if keep == "first":
            new = {names[0]: new[names[0]]}
        elif keep == "last":
            new = {names[-1]: new[names[-1]]}
        d["reprm"] = new
    d["use_in_sdsm"] = draw(st.sampled_from([None, None, None, "manual", "lapack", "both"]))
    d["touch_after_read"] = draw(st.sampled_from([None, None, None, "ctor", "set_prms"]))
    if draw(st.integers(0, 3)) == 0:
        d["configure"] = {
            "how": draw(st.sampled_from(["assign-before-use", "assign-after-use", "stock-class"])),
            "inflow_at": draw(st.sampled_from(["start", "middle", "end"])),
            "n_pts": draw(st.sampled_from([1, 1, 2, 3, 6])),
        }
    return d


class Tables(Facet):
    name = "tables"
    examples = {"quick": 12000, "thorough": 300000}
    shards = {"quick": 16, "thorough": 16}

    def strategy(self, tier):
        return table_cases(max_n=7 if tier == "quick" else 12)

    def run(self, desc):
        return run_tables(desc)


class Quadrature(Facet):
    name = "quadrature"
    exhaustive = True
    shards = {"quick": 2, "thorough": 2}

    def enumerate(self, tier):
        for n in range(1, 11):
            yield {"n": n}

    def run(self, desc):
        from flodym.gauss_lobatto import gl_nodes, gl_weights

        n = desc["n"]
        nodes, w = list(gl_nodes[n]), list(gl_weights[n])
        en, ew = lobatto(n)
        require(len(nodes) == n and len(w) == n, "quadrature-table-length", f"n={n}")
        require(all(abs(a - b) <= 1e-13 for a, b in zip(nodes, en)), "quadrature-nodes", f"n={n}: {nodes} vs {en}")
        require(all(abs(a - b) <= 1e-13 for a, b in zip(w, ew)), "quadrature-weights", f"n={n}: {w} vs {ew}")
        require(all(abs(a + b) <= 1e-14 for a, b in zip(nodes, reversed(nodes))), "quadrature-nodes-asymmetric", f"n={n}")
        require(all(x > 0 for x in w) and abs(sum(w) - 2.0) <= 1e-13, "quadrature-weights-sum", f"n={n}: sum {sum(w)}")
        if n > 1:
            require(nodes[0] == -1.0 and nodes[-1] == 1.0, "quadrature-end-points", f"n={n}")
        deg = max(1, 2 * n - 3) if n > 1 else 1
        for k in range(deg + 1):
            exact = 0.0 if k % 2 else 2.0 / (k + 1)
            got = sum(wi * xi**k for wi, xi in zip(w, nodes))
            require(abs(got - exact) <= 1e-13, "quadrature-not-exact-on-monomial", f"n={n} degree {k}: {got} vs {exact}")
        # the model uses this very rule for n_pts = n
        return {"nontrivial": n > 1, "classes": [f"n:{n}"]}


Prop(
    "C08",
    "exploration",
    "tables: generated lifetime models (Fixed, Normal, FoldedNormal, LogNormal, Weibull) x admissible parameters given as "
    "scalars, per-label arrays over any subset of the dims in any order, or per-cohort (time-varying) arrays x inflow_at x "
    "n_pts 1-10 x time grids (unit / non-unit / uneven, int or float) x 0-2 extra dims. Structural invariants (zero for c > t, "
    "in [0,1], non-increasing in t, pdf >= 0, sf + cumulative pdf = 1) and every entry equal (1e-9) to the closed-form survival "
    "function at the age from the inflow instant(s) to the end of year t, with Gauss-Lobatto nodes/weights derived independently "
    "from Legendre polynomials. quadrature: all 10 tabulated rules (exhaustive): symmetry, end points, positive weights summing "
    "to 2, agreement with the derived rule to 1e-13, exactness on monomials up to degree 2n-3. Non-trivial = parameters varying "
    "by label/cohort, n_pts > 1, or uneven grid.",
    [Tables(), Quadrature()],
    assumptions=[
        "parameters inside the models' ranges (mean, std, scale, shape > 0)",
        "fixed lifetime: entries whose age is within 1e-9 of the mean may be 0 or 1",
        "closed forms written with math.erfc/exp/log, not the scipy calls the implementation uses",
    ],
)
