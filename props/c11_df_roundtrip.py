"""C11 - DataFrame import is faithful to labels under every supported layout.

Facets
  export    : to_df lists every entry once under its true labels in every layout (sparse: exactly the
              non-zero entries)
  roundtrip : to_df (any layout) -> row permutation / index levels moved to columns / letters as headers /
              CSV text -> from_df returns the identical array
  rendered  : frames rendered from logical records in layouts to_df does not produce (dims split between
              index and columns in any order, column permutations, headers by name / letter / only
              through items, single-item dims left out, any value-column name, wide over any dim, CSV)
  weak      : every frame of C12's fault generator - whatever from_df returns, each non-zero entry
              comes from the unique row carrying its labels
"""
from __future__ import annotations

import itertools
import tempfile

import numpy as np
import pandas as pd
from hypothesis import strategies as st

from props import c12_import_faults as c12
from vlib import build, dfutil, frames, gen, model
from vlib.build import fd
from vlib.model import MArr
from vlib.runner import Discard, Facet, Prop, Violation, require


def is_untyped_int(U, l):
    d = build.udim(U, l)
    return d.get("dtype") is None and all(isinstance(i, int) for i in d["items"])


def is_mixed(U, l):
    d = build.udim(U, l)
    return d.get("dtype") is None and len({type(i) for i in d["items"]}) > 1


def zero_whole_rows(U, letters, vals, wide_letter, picks):
    """Set every entry along ``wide_letter`` to zero for some combinations of the other dimensions, so that whole
    rows of a sparse wide frame are absent (vals in C order over ``letters``)."""
    import itertools as _it

    shape = [len(build.udim(U, l)["items"]) for l in letters]
    w = letters.index(wide_letter)
    outer = list(_it.product(*[range(n) for i, n in enumerate(shape) if i != w]))
    vals = list(vals)
    if picks and picks[0] % 2 == 0:
        picks = [0] + list(picks)  # the very first row gone: later items of a middle dimension then show up first
    for p_ in picks:
        combo = list(outer[p_ % len(outer)])
        for k in range(shape[w]):
            idx = combo[:w] + [k] + combo[w:]
            flat = 0
            for i_, n in zip(idx, shape):
                flat = flat * n + i_
            vals[flat] = 0.0
    return vals


def values_mistakable_for_items(U, letters, df):
    """The strong clause covers dimensions identified only through their items 'when the values cannot be
    mistaken for items'.  True if some non-dimension column of the frame holds exactly the item set of a
    dimension that is not identified by name or letter in the frame (after the declared type conversion)."""
    flat = df.reset_index() if any(n is not None for n in df.index.names) else df
    named = set()
    for l in letters:
        d = build.udim(U, l)
        if d["name"] in flat.columns or l in flat.columns:
            named.add(l)
    for c in flat.columns:
        if any(c == build.udim(U, l)["name"] or c == l for l in letters):
            continue
        vals = list(pd.unique(flat[c]))
        for l in letters:
            if l in named:
                continue
            d = build.udim(U, l)
            tp = build._DT[d.get("dtype")]
            try:
                cast = {tp(v) for v in vals} if tp is not None else set(vals)
            except Exception:
                continue
            if cast == set(d["items"]):
                return True
    return False


def eq_values(csv, mode):
    # CSV text is read back with pandas' round-trip float parser, so even arbitrary floats are exact
    return model.eq_exact


# ------------------------------------------------------------------------------ export


def run_export(desc):
    U, xd = desc["universe"], desc["x"]
    x = build.array(U, xd)
    mx = build.marr(U, xd)
    out = check_export(desc, x, mx)
    require(build.snapshot(x) == build.snapshot(build.array(U, xd)), "to_df-modified-array", "")
    if desc.get("again"):
        # the same array object is exported again after its values were updated in place: the zero pattern (sparse)
        # and every value must be those of the current contents
        vals = [xd["vals"][(i * 7 + 3) % len(xd["vals"])] * (0.0 if i % 3 == 0 else 1.0) + (1.0 if i % 4 == 1 else 0.0) for i in range(len(xd["vals"]))]
        xd2 = dict(xd, vals=vals)
        x.values[...] = build.array_values(U, xd2)
        check_export(desc, x, build.marr(U, xd2), pre="re-export-after-inplace-update-")
        out["classes"].append("re-exported-after-update")
    return out


def check_export(desc, x, mx, pre=""):
    U, xd = desc["universe"], desc["x"]
    letters = xd["letters"]
    names = [build.udim(U, l)["name"] for l in letters]
    dtc = desc.get("dim_to_columns")
    df = x.to_df(index=desc["index"], dim_to_columns=dtc, sparse=desc["sparse"])
    wide_name = wide_items = None
    if dtc is not None:
        wl = dtc if len(dtc) == 1 else [d["letter"] for d in U["dims"] if d["name"] == dtc][0]
        wide_name, wide_items = build.udim(U, wl)["name"], build.udim(U, wl)["items"]
    recs = dfutil.df_records(df, names, wide_name, wide_items)
    m, dup = dfutil.records_to_map(recs, names)
    require(not dup, pre + "to_df-lists-entry-twice", str(dup[:2]))
    exp = {key: float(v) for key, v in mx.data.items()}
    if desc["sparse"]:
        exp = {k: v for k, v in exp.items() if v != 0}
        m = {k: v for k, v in m.items() if not (v != v)}
        require(set(m) == set(exp), pre + "to_df-sparse-rows", f"rows {sorted(set(m) ^ set(exp), key=str)[:3]} differ")
    else:
        require(set(m) == set(exp), pre + "to_df-rows", f"label tuples differ: {sorted(set(m) ^ set(exp), key=str)[:3]}")
    for k, v in exp.items():
        require(m[k] == v, pre + "to_df-value-under-wrong-label", f"{k}: {m[k]} vs {v}")
    return {"nontrivial": len(letters) >= 2, "classes": [f"index:{desc['index']}", "wide" if dtc else "long", "sparse" if desc["sparse"] else "dense"]}


@st.composite
def export_cases(draw):
    U = draw(gen.universes(min_dims=1, max_dims=4, max_len=3))
    x = draw(gen.arrays(U, modes=("float",), min_dims=1, elems=st.sampled_from([0.0, 0.0, 1.5, -2.0, 3.25, 7.0])))
    letters = x["letters"]
    sparse = draw(st.booleans())
    dtc = None
    if len(letters) >= 2:
        dtc = draw(st.sampled_from([None] + letters)) if not sparse else draw(st.sampled_from([None, None] + letters + letters[-1:] * 2))
        if sparse and dtc is not None:
            x = dict(x, vals=zero_whole_rows(U, letters, x["vals"], dtc, draw(st.lists(st.integers(0, 30), min_size=1, max_size=3))))
        if dtc is not None and draw(st.booleans()):
            dtc = build.udim(U, dtc)["name"]
    return {"universe": U, "x": x, "index": draw(st.booleans()), "sparse": sparse, "dim_to_columns": dtc, "again": draw(st.booleans())}


class Export(Facet):
    name = "export"
    examples = {"quick": 3000, "thorough": 120000}
    shards = {"quick": 8, "thorough": 16}

    def strategy(self, tier):
        return export_cases()

    def run(self, desc):
        return run_export(desc)


# --------------------------------------------------------------------------- roundtrip


def run_roundtrip(desc):
    U, xd = desc["universe"], desc["x"]
    x = build.array(U, xd)
    letters = xd["letters"]
    dtc = desc.get("dim_to_columns")
    if desc["sparse"] and dtc is not None and xd["mode"] == "float":
        wl_ = dtc if len(dtc) == 1 else [d["letter"] for d in U["dims"] if d["name"] == dtc][0]
        mx_ = build.marr(U, xd)
        for it in build.udim(U, wl_)["items"]:
            if not any(v != 0 for k_, v in mx_.data.items() if dict(zip(mx_.letters, k_))[wl_] == it):
                raise Discard("a sparse wide frame without a column for one of the items is not a complete table")
    df = x.to_df(index=desc["index"], dim_to_columns=dtc, sparse=desc["sparse"])
    cl = [f"index:{desc['index']}", "wide" if dtc else "long", "sparse" if desc["sparse"] else "dense"]
    if desc.get("reset_levels") and desc["index"]:
        lv = [n for i, n in enumerate(df.index.names) if n is not None and (desc["reset_levels"] >> i) & 1]
        if lv and len(lv) < len(df.index.names):
            df = df.reset_index(level=lv)
            cl.append("levels-moved-to-columns")
    def permute(df):
        # rows re-ordered the way users do it (df.sample / df.iloc[...]): the integer row labels travel with the rows
        order = np.random.RandomState(desc["perm_seed"]).permutation(len(df))
        cl.append("rows-permuted")
        return df.iloc[order]

    if desc.get("perm_seed") is not None and len(df) > 1 and desc.get("perm_when", "before") == "before":
        df = permute(df)
    if desc.get("letters_as_headers"):
        ren = {build.udim(U, l)["name"]: l for l in letters}
        df = df.rename(columns=ren)
        if any(n is not None for n in df.index.names):
            df.index = df.index.set_names([ren.get(n, n) for n in df.index.names])
        if dtc is not None:
            df.columns.name = None
        cl.append("letters-as-headers")
    if desc.get("value_col") and dtc is None:
        df = df.rename(columns={"value": desc["value_col"]})
    csv = bool(desc.get("csv"))
    am = bool(desc["sparse"]) or bool(desc.get("allow_missing_anyway"))
    if am and not desc["sparse"]:
        cl.append("dense-with-allow_missing")
    if xd["mode"] == "float" and any(isinstance(v, float) and np.isinf(v) for v in xd.get("vals", [])):
        cl.append("has-infinite-entry")
    with tempfile.TemporaryDirectory(prefix="verif_c11_") as tmp:
        if csv:
            df, _ = frames.through_csv(df, tmp)
            cl.append("csv")
        if desc.get("perm_seed") is not None and len(df) > 1 and desc.get("perm_when") == "after":
            df = permute(df)
            cl.append("rows-permuted-after-csv")
        if desc.get("labels_as_text"):
            # labels of typed dimensions arrive in another type (ints as text, as after a header-less read)
            for l in letters:
                d_ = build.udim(U, l)
                for cname in (d_["name"], l):
                    if cname in df.columns and d_.get("dtype") == "int":
                        df = df.assign(**{cname: df[cname].astype(str)})
                        if "labels-as-text" not in cl:
                            cl.append("labels-as-text")
        if am and len(df) == 0:
            raise Discard("sparse export of an all-zero array is an empty frame")
        if xd["mode"] == "float" and values_mistakable_for_items(U, letters, df):
            raise Discard("values can be mistaken for the items of a dimension that is not named in the frame")
        try:
            res = fd.FlodymArray.from_df(dims=build.dimset(U, desc.get("target_order") or letters), df=df, allow_missing_values=am)
        except Exception as e:
            bucket = "roundtrip-rejected"
            if dtc is not None:
                wl = dtc if len(dtc) == 1 else [d["letter"] for d in U["dims"] if d["name"] == dtc][0]
                if is_untyped_int(U, wl):
                    bucket = "roundtrip-rejected-wide-untyped-int"
            raise Violation(bucket, f"{type(e).__name__}: {str(e)[:200]}; dims {letters} layout index={desc['index']} dtc={dtc} sparse={desc['sparse']} csv={csv}")
    d = model.diff(build.marr(U, xd), MArr.from_flodym(res), eq_values(csv, xd["mode"]), check_order=False)
    require(d is None, "roundtrip-differs", f"{d}; dims {letters} layout index={desc['index']} dtc={dtc} sparse={desc['sparse']} csv={csv}")
    nontrivial = len(letters) >= 2 and ("rows-permuted" in cl or dtc is not None or "levels-moved-to-columns" in cl)
    return {"nontrivial": nontrivial, "classes": cl}


@st.composite
def roundtrip_cases(draw):
    U = draw(gen.universes(min_dims=draw(st.sampled_from([1, 2, 2, 3])), max_dims=3, max_len=5))
    for d_ in U["dims"]:
        if d_["dtype"] == "str" and draw(st.integers(0, 3)) == 0:
            # str labels that look like numbers (years, codes): after CSV they come back as ints and are converted again
            pool = ["2020", "1990", "2005", "1750", "3000", "2021"]
            k0 = draw(st.integers(0, len(pool) - len(d_["items"])))
            d_["items"] = list(draw(st.permutations(pool[k0 : k0 + len(d_["items"])])))
            break
    mode = draw(st.sampled_from(["coded", "coded", "float"]))
    elems = None
    if mode == "float" and draw(st.booleans()):
        # "all arrays": entries may be infinite (divisions by zero shares, unbounded capacities), and zeros matter for sparse
        elems = st.one_of(gen.nice_floats, st.sampled_from([0.0, 0.0, float("inf"), float("-inf")]))
    x = draw(gen.arrays(U, modes=(mode,), min_dims=1, elems=elems))
    letters = x["letters"]
    sparse = draw(st.sampled_from([False, False, True]))
    csv = draw(st.booleans())
    dtc = None
    if len(letters) >= 2 and draw(st.booleans()):
        dtc = draw(st.sampled_from(letters))
        d = build.udim(U, dtc)
        if sparse and len(d["items"]) > 1 and mode == "float":
            # a wide sparse frame must keep every item column (docs: all items of a dimension are given): checked when
            # the case is run; many zeros, so that whole rows of the wide frame vanish
            n_ = gen._size(U, letters)
            x = dict(x, vals=draw(st.lists(st.sampled_from([0.0, 1.5, -2.0, 3.25, 7.0, 0.5]), min_size=n_, max_size=n_)))
            x["vals"] = zero_whole_rows(U, letters, x["vals"], dtc, draw(st.lists(st.integers(0, 30), min_size=1, max_size=3)))
        if csv and is_untyped_int(U, dtc):
            csv = False  # untyped int items do not survive as CSV header text
        if draw(st.booleans()):
            dtc = d["name"]
    if csv and any(is_mixed(U, l) for l in letters):
        csv = False  # text cannot tell 101 from '101': labels of a dimension mixing both do not survive CSV
    desc = {
        "universe": U,
        "x": x,
        "index": draw(st.booleans()),
        "sparse": sparse,
        "dim_to_columns": dtc,
        "reset_levels": draw(st.integers(0, 15)),
        "perm_seed": draw(st.one_of(st.none(), st.integers(0, 1000))),
        "letters_as_headers": draw(st.booleans()),
        "value_col": draw(st.sampled_from([None, None, "Amount (t)", "v"])),
        "csv": csv,
        "target_order": list(draw(st.permutations(letters))),
        # the flag that tolerates gaps must change nothing when there are none
        "allow_missing_anyway": draw(st.integers(0, 3)) == 0,
        "perm_when": draw(st.sampled_from(["before", "after"])),
        "labels_as_text": draw(st.integers(0, 3)) == 0,
    }
    return desc


class RoundTrip(Facet):
    name = "roundtrip"
    examples = {"quick": 5000, "thorough": 240000}
    shards = {"quick": 16, "thorough": 16}

    def strategy(self, tier):
        return roundtrip_cases()

    def run(self, desc):
        return run_roundtrip(desc)


# ---------------------------------------------------------------------------- rendered


def run_rendered(desc):
    U, letters, layout = desc["universe"], desc["letters"], desc["layout"]
    mode = desc["mode"]
    if mode == "collide":
        # values whose set equals the item set of an int dimension - dims identified by name
        l = desc["collide_dim"]
        its = build.udim(U, l)["items"]
        vf = lambda lab: float(its[(its.index(lab[l]) + 1) % len(its)])
    else:
        vf = build.value_fn(U, {"letters": letters, "mode": "coded", "tag": "x"})
    recs = frames.full_records(U, letters, vf)
    if desc.get("perm_seed") is not None:
        order = np.random.RandomState(desc["perm_seed"]).permutation(len(recs))
        recs = [recs[i] for i in order]
    df = frames.render(U, letters, recs, layout)
    csv = bool(desc.get("csv"))
    cl = ["wide" if layout.get("wide") else "long", f"mode:{mode}"]
    styles = set(layout["header"].values())
    cl += [f"header:{s}" for s in sorted(styles)]
    if layout.get("drop_single"):
        cl.append("single-item-dim-left-out")
    if layout.get("index"):
        cl.append("dims-in-index")
    with tempfile.TemporaryDirectory(prefix="verif_c11_") as tmp:
        if desc.get("noheader"):
            # a file without a header line, read the default way: the first data row ends up as column names
            df, _ = frames.through_csv(df, tmp, header=False)
            cl.append("header-row-consumed-as-data")
        elif csv:
            df, _ = frames.through_csv(df, tmp)
            cl.append("csv")
        if desc.get("year_index"):
            # one int dimension holds calendar years and sits in an UNNAMED plain index (typical hand-made table)
            yl = desc["year_index"]
            yn = frames.header_of(U, yl, layout["header"].get(yl, "name"))
            flat = df.reset_index() if any(n is not None for n in df.index.names) else df
            if yn in flat.columns:
                df = flat.set_index(yn)
                df.index.name = None
                cl.append("unnamed-year-index")
        df_before = df.copy(deep=True)
        try:
            res = fd.FlodymArray.from_df(dims=build.dimset(U, letters), df=df)
            require(df.equals(df_before) and list(df.columns) == list(df_before.columns) and df.index.equals(df_before.index), "from_df-modified-input-frame", f"columns {list(df_before.columns)} -> {list(df.columns)}; index {list(df_before.index)[:4]} -> {list(df.index)[:4]}")
        except Violation:
            raise
        except Exception as e:
            bucket = "rendered-rejected"
            if layout.get("wide") and is_untyped_int(U, layout["wide"]):
                bucket = "roundtrip-rejected-wide-untyped-int"
            elif mode == "collide":
                bucket = "rejected-values-equal-to-items-of-named-dimension"
            raise Violation(bucket, f"{type(e).__name__}: {str(e)[:200]}; dims {letters} layout {layout} csv={csv}")
    exp = MArr.from_fn(letters, build.uitems(U), vf)
    d = model.diff(exp, MArr.from_flodym(res), model.eq_exact)
    require(d is None, "rendered-differs", f"{d}; dims {letters} layout {layout} csv={csv}")
    nontrivial = len(letters) >= 2 and (desc.get("perm_seed") is not None or layout.get("wide") or layout.get("drop_single") or layout.get("col_order"))
    return {"nontrivial": bool(nontrivial), "classes": cl}


@st.composite
def rendered_cases(draw):
    style = draw(st.sampled_from(["named", "named", "junk"]))
    kinds = ("str", "int", "ustr", "uint", "umixed")
    U, letters, layout = draw(c12.base_frames(max_dims=3, max_len=5, header_styles=("name", "letter") if style == "named" else ("name", "letter", "junk"), kinds=kinds))
    csv = draw(st.booleans())
    wide = layout.get("wide")
    # c12.base_frames never spreads an untyped int dimension; here it is part of the domain (in memory)
    if wide is None and len(letters) >= 2 and draw(st.integers(0, 3)) == 0:
        cand = [l for l in letters if is_untyped_int(U, l)]
        if cand:
            wide = layout["wide"] = cand[0]
            layout["index"] = [l for l in layout["index"] if l != wide]
            layout["drop_single"] = [l for l in layout["drop_single"] if l != wide]
    if wide is not None and is_untyped_int(U, wide):
        csv = False
    if any(is_mixed(U, l) for l in letters):
        csv = False
    junk = [l for l in letters if layout["header"][l] == "junk" and l != wide and l not in layout["drop_single"]]
    if junk:
        # dimensions identified only through their items must precede every value column:
        # put them into the index (reset_index puts index levels first) or keep the natural column order
        layout["col_order"] = None
        if wide is not None or draw(st.booleans()):
            layout["index"] = junk + [l for l in layout["index"] if l not in junk]
        else:
            # long frame, natural order: all dim columns precede the value column; junk ones must
            # not be preceded by a non-dimension column - true by construction
            pass
    mode = "coded"
    desc = {"universe": U, "letters": letters, "layout": layout, "csv": csv, "perm_seed": draw(st.one_of(st.none(), st.integers(0, 1000))), "mode": mode}
    # a dimension of calendar years held in an unnamed plain index
    ycand = [l for l in letters if l != wide and l not in layout["drop_single"] and (build.udim(U, l).get("dtype") == "int" or is_untyped_int(U, l))]
    if ycand and not junk and draw(st.integers(0, 3)) == 0:
        yl = ycand[0]
        d_ = build.udim(U, yl)
        d_["items"] = [1990 + 5 * i for i in range(len(d_["items"]))] if draw(st.booleans()) else [2020 + i for i in range(len(d_["items"]))][::-1]
        layout["index"] = []
        layout["col_order"] = None
        desc["year_index"] = yl
        desc["csv"] = False
    # headerless file whose first row is consumed as column names (long format, dims found by items)
    if wide is None and not junk and not layout["index"] and not layout["drop_single"] and not any(is_untyped_int(U, l) or is_mixed(U, l) for l in letters) and draw(st.integers(0, 5)) == 0:
        layout["col_order"] = None
        layout["header"] = {l: "junk" for l in letters}
        desc["noheader"] = True
        desc["csv"] = True
        return desc
    # values that coincide with a named int dimension's items
    intdims = [l for l in letters if build.udim(U, l).get("dtype") == "int" or is_untyped_int(U, l)]
    if intdims and not junk and wide is None and draw(st.integers(0, 4)) == 0:
        desc["mode"] = "collide"
        desc["collide_dim"] = intdims[0]
        # the dimension the values coincide with must be identified by name/letter in the frame
        layout["drop_single"] = [l for l in layout["drop_single"] if l != intdims[0]]
    return desc


class Rendered(Facet):
    name = "rendered"
    examples = {"quick": 6000, "thorough": 200000}
    shards = {"quick": 16, "thorough": 16}

    def strategy(self, tier):
        return rendered_cases()

    def run(self, desc):
        return run_rendered(desc)


class Large(Facet):
    """Sizes beyond the small-case bounds: dimensions with more than 2^15 / 2^16 items and arrays with more
    than 2^15 / 2^16 / 2^17 entries built from small dimensions (index arithmetic must not depend on size)."""

    name = "large"
    exhaustive = True
    shards = {"quick": 16, "thorough": 16}

    def enumerate(self, tier):
        shapes = [(32767,), (32768,), (32769,), (40000,), (3, 33000), (40, 30, 30), (200, 200), (14, 14, 14, 14), (2, 3, 40000)]
        if tier == "thorough":
            shapes += [(65535,), (65536,), (65537,), (70000,), (260, 260), (66000, 2), (50, 50, 60), (20, 20, 20, 20)]
        for shape in shapes:
            for layout in ("long-index", "long-columns-shuffled", "wide"):
                if layout == "wide" and (len(shape) < 2 or shape[-1] > 300):
                    continue
                yield {"shape": list(shape), "layout": layout}

    def run(self, desc):
        shape = desc["shape"]
        letters = list("abcd")[: len(shape)]
        dims = [fd.Dimension(letter=l, name=gen.NAMES[l], items=[1000 * (k + 1) * 100 + i for i in range(n)] if k % 2 == 0 else [f"{l}{i}" for i in range(n)], dtype=int if k % 2 == 0 else str) for k, (l, n) in enumerate(zip(letters, shape))]
        ds = fd.DimensionSet(dim_list=dims)
        vals = np.arange(1.0, float(np.prod(shape)) + 1.0).reshape(shape)
        x = fd.FlodymArray(dims=ds, values=vals)
        if desc["layout"] == "long-index":
            df = x.to_df()
        elif desc["layout"] == "wide":
            df = x.to_df(dim_to_columns=letters[-1], index=False)
        else:
            df = x.to_df(index=False)
            order = np.random.RandomState(len(df)).permutation(len(df))
            df = df.iloc[order]
        # export: every label tuple once with its value (checked through the frame's own columns)
        if desc["layout"] != "wide":
            flat = df.reset_index() if desc["layout"] == "long-index" else df
            require(len(flat) == vals.size and not flat[[d.name for d in dims]].duplicated().any(), "to_df-rows", f"shape {shape}")
        y = fd.FlodymArray.from_df(dims=ds, df=df)
        bad = int(np.sum(y.values != vals))
        require(bad == 0, "large-roundtrip-differs", f"shape {shape} layout {desc['layout']}: {bad} of {vals.size} entries differ, first at flat index {int(np.argmax((y.values != vals).reshape(-1)))}")
        return {"nontrivial": True, "classes": [f"entries>2^{int(np.log2(vals.size))}", f"maxdim>2^{int(np.log2(max(shape)))}"]}


class Weak(Facet):
    name = "weak"
    examples = {"quick": 3000, "thorough": 150000}
    shards = {"quick": 16, "thorough": 16}

    def strategy(self, tier):
        return c12.fault_cases(max_faults=4)

    def run(self, desc):
        d = dict(desc, entry="from_df")
        return c12.run_fault_case(d, weak_only=True)


Prop(
    "C11",
    "exploration",
    "Arrays of 1-4 dims with pairwise different item sets (typed int / typed str / untyped str / untyped int items, single-item "
    "dims). export: every to_df layout parsed back with plain loops (one row per label tuple, sparse = exactly the non-zero "
    "entries). roundtrip: to_df(index x dim_to_columns by name or letter x sparse) then row permutation, index levels moved to "
    "columns, letters as headers, renamed value column, CSV text, target dims in any order -> from_df must return the identical "
    "array (exact; CSV text is read back with the round-trip float parser). rendered: frames rendered from records with dims split between index "
    "and columns, column permutations, headers by name / letter / only through items (inferred columns before the value column), "
    "single-item dims left out, wide over any dim incl. untyped int, values coinciding with a named int dimension's items. weak: "
    "every faulty frame of C12's generator - each non-zero imported entry must come from the unique row with its labels. "
    "Non-trivial = >= 2 dims with a row/column permutation, a wide layout, or a left-out single-item dim.",
    [Export(), RoundTrip(), Rendered(), Large(), Weak()],
    assumptions=[
        "wide layouts need >= 2 dims; sparse frames are imported with allow_missing_values=True and wide sparse frames keep every item column",
        "inferred-by-items columns precede the value column and the value set differs from every item set (the importer documents that it stops at the first non-matching column)",
        "through CSV, a dimension is spread over the columns only if its items survive as header text (typed dims, or untyped str)",
    ],
)
