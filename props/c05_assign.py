"""C05 - assignment into a declared array keeps its dims and sums the source by label.

Facet ``history`` (label-coded values) and ``sym`` (symbolic values): 1-6 successive assignments
``target[key] = rhs`` to overlapping regions of one target, every step compared with a dict model
of the target.  Right-hand sides: FlodymArray over the region's letters plus surplus dimensions in
any order (summed down), FlodymArray lacking a region dimension (must raise, target untouched),
number, region-shaped ndarray, whole-array ndarray of the exact / a wrong / a transposed shape.
"""
from __future__ import annotations

import numpy as np
from hypothesis import strategies as st

from props.c06_index import SUBLETTER, make_key, region, selectors
from vlib import build, gen, model
from vlib.build import fd
from vlib.model import MArr
from vlib.runner import Facet, Prop, Violation, require


def rhs_universe(U, sel):
    """Universe extended by the subset Dimensions named in the key (fresh letters)."""
    dims = [dict(d) for d in U["dims"]]
    for l, s in sel.items():
        if s["kind"] == "subset":
            d = build.udim(U, l)
            dims.append({"letter": SUBLETTER[l], "name": d["name"] + " sub", "items": list(s["items"]), "dtype": d.get("dtype")})
    return {"dims": dims}


class _NdSub(np.ndarray):
    """a trivial user subclass of ndarray (as memmap, matrix or unit-carrying arrays are)"""


def run_history(desc):
    key_obj = {}
    U = desc["universe"]
    td = desc["target"]
    mode = td["mode"]
    eq = build.eq_for(mode)
    target = build.array(U, td)
    tm = build.marr(U, td)  # dict model of the target
    tletters = list(td["letters"])
    classes = [f"mode:{mode}"]
    n_ok = n_rejected = 0
    nontrivial = False
    retained = []  # (source array, snapshot, where): sources of earlier steps must never change later
    twins = []  # (second target assigned from the same source, its snapshot)

    def check_retained(where):
        for src, snp, at in retained:
            require(build.snapshot(src) == snp, "later-write-changed-earlier-source", f"{where}: the source assigned in step {at} changed")
        for tw, snp, at in twins:
            require(build.snapshot(tw) == snp, "later-write-changed-other-target", f"{where}: another array assigned from the same source in step {at} changed")

    for si, step in enumerate(desc["steps"]):
        sel, syntax, rhs = step["sel"], step["syntax"], step["rhs"]
        key = make_key(U, sel, syntax)
        if desc.get("same_key_object") and isinstance(key, dict):
            # one selection dict kept across the assignments and updated in place
            key_obj.clear()
            key_obj.update(key)
            key = key_obj
        rl, ritems, orig = region(U, tletters, sel)
        singles = {l: s["items"][0] for l, s in sel.items() if s["kind"] == "single"}
        sel_items = {orig[l]: ritems[l] for l in rl}
        before = build.snapshot(target)
        kind = rhs["kind"]
        classes.append(f"rhs:{kind}")
        expect_reject = False
        newval = None  # region label dict -> value

        if kind == "array_other_len":
            # source over the target's letters, one dimension replaced by a same-letter dimension with
            # another number of items: whatever happens, dims and shape of the target must not change
            l = tletters[rhs["dim"] % len(tletters)]
            its = list(target.dims[l].items)
            other_items = [its[:1], its + ["extra item"], its[: max(1, len(its) - 1)] if len(its) > 1 else its + ["extra item"]][rhs["how"] % 3]
            ods = fd.DimensionSet(dim_list=[target.dims[x] if x != l else fd.Dimension(letter=l, name=target.dims[l].name, items=other_items) for x in tletters])
            y = fd.FlodymArray(dims=ods, values=np.full(ods.shape, 2.0))
            try:
                target[...] = y
            except Exception:
                require(build.snapshot(target) == before, "rejected-assignment-changed-target", f"step {si} (array_other_len)")
                n_rejected += 1
            require(list(target.dims.letters) == tletters, "assignment-changed-dims", f"step {si}")
            require(tuple(target.values.shape) == tuple(target.dims.shape), "assignment-changed-shape", f"step {si}: source with {len(other_items)} items along {l} (target has {len(its)}): values {target.values.shape} vs dims {target.dims.shape}")
            tm = MArr.from_flodym(target)
            nontrivial = True
            continue
        if kind in ("array", "array_missing"):
            RU = rhs_universe(U, sel)
            yd = dict(rhs["y"])
            y = build.array(RU, yd)
            my = build.marr(RU, yd)
            ysnap = build.snapshot(y)
            if any(l not in yd["letters"] for l in rl):
                expect_reject = True
            else:
                ys = my.sum_to(rl)
                newval = lambda rlab: ys.get(rlab)
                if len(yd["letters"]) > len(rl):
                    classes.append("surplus-dims-summed")
                    nontrivial = True
                if [l for l in yd["letters"] if l in rl] != rl:
                    classes.append("source-permuted")
                    nontrivial = True
            value = y
        elif kind == "number":
            value = rhs["v"]
            newval = lambda rlab: float(rhs["v"])
        elif kind == "ndarray":
            uorder = gen.uletters(U)

            def rv(rlab, si=si):
                code = 0
                for l in rl:
                    code += (ritems[l].index(rlab[l]) + 1) * build.code_base(U) ** uorder.index(orig[l])
                return float(-(code * 7 + si))

            value = build.ndarray_from_fn(rl, ritems, rv, float)
            base_buf = value
            fl = rhs.get("flavour")
            if fl and value.ndim >= 1:
                # the assigned ndarray need not be a plain, writeable, C-ordered array of its own
                if fl == "readonly":
                    value = base_buf.view()
                    value.setflags(write=False)  # e.g. what np.broadcast_to or a protected view hands out
                elif fl == "subclass":
                    value = base_buf.view(_NdSub)
                elif fl == "fortran":
                    value = base_buf = np.asfortranarray(base_buf)
                elif fl == "strided":
                    big = np.zeros(tuple(2 * n for n in base_buf.shape))
                    v_ = big[tuple(slice(0, None, 2) for _ in base_buf.shape)]
                    v_[...] = base_buf
                    value = base_buf = v_
                classes.append(f"ndarray-rhs:{fl}")
            newval = rv
        else:  # whole-array ndarray of a wrong shape
            shape = list(target.values.shape)
            how = rhs["how"]
            if how == "transposed" and len(shape) >= 2 and shape != shape[::-1]:
                shape = shape[::-1]
            elif how == "drop-first" and len(shape) >= 2:
                shape = shape[1:]  # broadcastable
            elif how == "ones":
                shape = [1] * len(shape) if any(n > 1 for n in shape) else shape + [1]
            else:
                shape = shape + [2]
            value = np.full(shape, 3.25)
            expect_reject = True

        def do():
            target[key] = value

        if expect_reject:
            try:
                do()
            except Exception:
                pass
            else:
                raise Violation(f"accepted-{kind}", f"step {si}: rhs {getattr(value, 'shape', None)} into target {tletters}{target.dims.shape} key kinds {[s['kind'] for s in sel.values()]}")
            require(build.snapshot(target) == before, "rejected-assignment-changed-target", f"step {si} ({kind}): values shape now {np.shape(target.values)} dims {target.dims.shape}")
            n_rejected += 1
            nontrivial = True
            continue

        do()
        n_ok += 1
        if kind == "array":
            require(build.snapshot(y) == ysnap, "assignment-modified-source", f"step {si}")
            retained.append((y, ysnap, si))
            if not sel and sorted(yd["letters"]) == sorted(tletters):
                # a second declared array receives the same source; later writes to the first must not reach it
                tw = fd.FlodymArray(dims=target.dims, values=np.zeros(target.dims.shape, dtype=target.values.dtype))
                tw[...] = y
                twins.append((tw, build.snapshot(tw), si))
                classes.append("twin-target")
        if kind == "ndarray":
            base_buf[...] = 99999.0  # later changes of the assigned ndarray('s memory) must not reach the target
            require(bool(target.values.flags.writeable), "target-values-not-writeable-after-assignment", f"step {si}: rhs flavour {rhs.get('flavour')}")
            require(not np.shares_memory(target.values, base_buf), "assigned-ndarray-not-copied", f"step {si}: target shares memory with the assigned ndarray (flavour {rhs.get('flavour')})")
        require(list(target.dims.letters) == tletters, "assignment-changed-dims", f"step {si}: {target.dims.letters}")
        require(tuple(target.values.shape) == tuple(target.dims.shape), "assignment-changed-shape", f"step {si}: {target.values.shape} vs {target.dims.shape}")

        def f(lab):
            for l, it in singles.items():
                if lab[l] != it:
                    return tm.get(lab)
            for l in tletters:
                if l in sel_items and lab[l] not in sel_items[l]:
                    return tm.get(lab)
            return newval({l: lab[orig[l]] for l in rl})

        check_retained(f"after step {si}")
        tm = MArr.from_fn(tletters, build.uitems(U), f)
        d = model.diff(tm, MArr.from_flodym(target), eq)
        require(d is None, f"assign-{kind}-wrong-entries", f"step {si}: {d}; target{tletters} key kinds {[(l, s['kind']) for l, s in sel.items()]} rhs dims {rhs.get('y', {}).get('letters')}")
    # finally write into the sources: the target must not follow
    tsnap = build.snapshot(target)
    for src, snp, at in retained:
        if src.values.dtype != object:
            src.values[...] = -31337.0
    require(build.snapshot(target) == tsnap, "target-follows-later-change-of-source", "writing into earlier sources changed the target")
    if n_ok >= 2:
        nontrivial = True
        classes.append("overlapping-history")
    return {"nontrivial": nontrivial, "classes": classes}


@st.composite
def histories(draw, mode, max_steps=5, max_dims=4, max_len=3):
    U = draw(gen.universes(min_dims=draw(st.sampled_from([1, 2, 3])), max_dims=max_dims, max_len=max_len, long_dim=8 if mode == "coded" else 0))
    allL = gen.uletters(U)
    target = draw(gen.arrays(U, modes=(mode,), tag="x", min_dims=1))
    tl = target["letters"]
    steps = []
    for _ in range(draw(st.integers(1, max_steps))):
        kind = draw(st.sampled_from(["array", "array", "array", "number", "ndarray", "array_missing", "ndarray_wrong", "array_other_len"] if mode == "coded" else ["array", "array", "array_missing"]))
        allow_list = kind in ("number", "ndarray")
        if kind == "array_other_len":
            steps.append({"sel": {}, "syntax": "ellipsis", "rhs": {"kind": kind, "dim": draw(st.integers(0, 5)), "how": draw(st.integers(0, 2))}})
            continue
        if kind == "ndarray_wrong":
            sel, syntax = {}, "ellipsis"
        else:
            sel = draw(selectors(U, tl, allow_list=allow_list))
            tuple_ok = sel and all(v["kind"] in ("single", "list") and (v["kind"] == "single" or len(v["items"]) >= 2) for v in sel.values())
            syntax = draw(st.sampled_from(["dict_letter", "dict_name", "dict_mixed"] + (["ellipsis"] if not sel else []) + (["tuple", "tuple_mixed", "tuple_mixed"] if tuple_ok else []) + (["bare", "bare"] if len(sel) == 1 and all(v["kind"] == "single" for v in sel.values()) else [])))
        rl, ritems, orig = region(U, tl, sel)
        rhs = {"kind": kind}
        if kind == "ndarray":
            rhs["flavour"] = draw(st.sampled_from([None, None, "readonly", "subclass", "fortran", "strided"]))
        if kind == "array_other_len":
            # source over the target's letters, one dimension replaced by a same-letter dimension with
            # another number of items: whatever happens, dims and shape of the target must not change
            l = tletters[rhs["dim"] % len(tletters)]
            its = list(target.dims[l].items)
            other_items = [its[:1], its + ["extra item"], its[: max(1, len(its) - 1)] if len(its) > 1 else its + ["extra item"]][rhs["how"] % 3]
            ods = fd.DimensionSet(dim_list=[target.dims[x] if x != l else fd.Dimension(letter=l, name=target.dims[l].name, items=other_items) for x in tletters])
            y = fd.FlodymArray(dims=ods, values=np.full(ods.shape, 2.0))
            try:
                target[...] = y
            except Exception:
                require(build.snapshot(target) == before, "rejected-assignment-changed-target", f"step {si} (array_other_len)")
                n_rejected += 1
            require(list(target.dims.letters) == tletters, "assignment-changed-dims", f"step {si}")
            require(tuple(target.values.shape) == tuple(target.dims.shape), "assignment-changed-shape", f"step {si}: source with {len(other_items)} items along {l} (target has {len(its)}): values {target.values.shape} vs dims {target.dims.shape}")
            tm = MArr.from_flodym(target)
            nontrivial = True
            continue
        if kind in ("array", "array_missing"):
            surplus_pool = [l for l in allL if l not in [orig[r] for r in rl]]  # incl. single-selected target dims
            surplus = draw(gen.ordered_subtuple(surplus_pool, max_size=2))
            yl = list(rl)
            if kind == "array_missing":
                if not yl:
                    rhs["kind"] = kind = "array"
                else:
                    yl.pop(draw(st.integers(0, len(yl) - 1)))
            yl = yl + surplus
            if mode == "sym" and not yl:
                yl = [draw(st.sampled_from(surplus_pool))] if surplus_pool else None
                if yl is None:
                    continue
            yl = list(draw(st.permutations(yl)))
            rhs["y"] = {"letters": yl, "mode": mode, "tag": "y"}
        elif kind == "number":
            rhs["v"] = draw(st.sampled_from([0.0, -7.5, 3.0]))
        elif kind == "ndarray_wrong":
            rhs["how"] = draw(st.sampled_from(["transposed", "drop-first", "ones", "extra-axis"]))
        steps.append({"sel": sel, "syntax": syntax, "rhs": rhs})
    if not steps:
        steps.append({"sel": {}, "syntax": "ellipsis", "rhs": {"kind": "array", "y": {"letters": list(tl), "mode": mode, "tag": "y"}}})
    return {"universe": U, "target": target, "steps": steps, "same_key_object": draw(st.booleans())}


class History(Facet):
    name = "history"
    examples = {"quick": 6000, "thorough": 360000}
    shards = {"quick": 8, "thorough": 16}

    def strategy(self, tier):
        return histories("coded", max_steps=5 if tier == "quick" else 6, max_dims=4, max_len=5)

    def run(self, desc):
        return run_history(desc)


class Sym(Facet):
    name = "sym"
    examples = {"quick": 1600, "thorough": 90000}
    shards = {"quick": 16, "thorough": 16}

    def strategy(self, tier):
        return histories("sym", max_steps=3, max_dims=3, max_len=2)

    def run(self, desc):
        return run_history(desc)


Prop(
    "C05",
    "exploration",
    "Generated assignment histories: target (1-4 dims, any order/lengths), 1-6 steps target[key] = rhs with key = "
    "per-dimension selector none/single/subset Dimension/list (lists only with number/ndarray sources) or '...'; rhs = "
    "FlodymArray over the region's letters plus <=2 surplus dims in any order (incl. dims that the key fixes to a single "
    "item), FlodymArray lacking a region dim (must raise), number, region-shaped ndarray, whole-array ndarray of a "
    "wrong/transposed/broadcastable shape (must raise). After every step dims/shape are unchanged and the target equals "
    "the dict model; a rejected step leaves the target bit-identical; assigned ndarrays are overwritten afterwards. "
    "Symbolic facet decides the summation identities for all values. Non-trivial = surplus dims, permuted source, a "
    "rejected step, or >= 2 successful overlapping assignments.",
    [History(), Sym()],
    assumptions=[
        "list selectors are combined with number / ndarray sources only (a FlodymArray source has no dimension object for a list region)",
        "wrong-shaped ndarrays are asserted for whole-array assignment only, as the statement says",
    ],
)
