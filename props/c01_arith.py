"""C01 - arithmetic between arrays matches dimensions by label, never by axis position.

Facets
  sym    : symbolic values (sympy symbols named after their labels): each generated
           configuration is decided for ALL real values as a polynomial / rational identity.
  exact  : exact rationals incl. zeros, negatives and ties for min / max / sign / abs (numpy cannot
           order symbols) and all other operators.
  float  : the production float64 path with tolerance.
  configs: enumeration of every ordered pair of ordered dimension sub-tuples of a 3-dim (thorough:
           also 4-dim) universe x length patterns x {+,*,-,/,min,max,**} with label-coded values.
"""
from __future__ import annotations

import itertools
import operator
from fractions import Fraction

from hypothesis import strategies as st

from vlib import build, gen, model
from vlib.build import fd
from vlib.model import MArr, combine_intersection, combine_union
from vlib.runner import Facet, Prop, Violation, require

BIN_OPS = ["+", "-", "*", "/", "**", "min", "max"]
NUM_FORMS = ["x+n", "n+x", "x-n", "n-x", "x*n", "n*x", "x/n", "n/x", "x**n"]
UNARY = ["neg", "abs", "sign", "abs_method", "sign_method"]


def _sign(v):
    return (v > 0) - (v < 0)


def eq_mixed(scale=0.0):
    feq = model.make_eq_float(1e-9)

    def eq(a, b):
        if isinstance(a, float) or isinstance(b, float):
            return feq(a, b, scale)
        try:
            import numpy as np

            if isinstance(a, np.floating) or isinstance(b, np.floating):
                return feq(a, b, scale)
        except Exception:
            pass
        return a == b

    return eq


def expected(op, mx: MArr, my: MArr | None, num=None):
    """Reference result per the statement.  Returns MArr or raises KeyError('must-raise')."""
    if op in ("+", "-", "min", "max"):
        f = {"+": operator.add, "-": operator.sub, "min": lambda a, b: a if a <= b else b, "max": lambda a, b: a if a >= b else b}[op]
        return combine_intersection(mx, my, f)
    if op in ("*", "/"):
        f = {"*": operator.mul, "/": operator.truediv}[op]
        return combine_union(mx, my, f)
    if op == "**":
        if any(l not in mx.letters for l in my.letters):
            raise KeyError("must-raise")
        return MArr.from_fn(mx.letters, mx.items, lambda lab: mx.get(lab) ** my.get(lab))
    raise ValueError(op)


def full_like(mx: MArr, num):
    return MArr.from_fn(mx.letters, mx.items, lambda lab: num)


def apply_flodym(op, x, y):
    if op == "+":
        return x + y
    if op == "-":
        return x - y
    if op == "*":
        return x * y
    if op == "/":
        return x / y
    if op == "**":
        return x**y
    if op == "min":
        return x.minimum(y)
    if op == "max":
        return x.maximum(y)
    raise ValueError(op)


def num_form(form, x, mx, n):
    """-> (flodym result, model expectation) of an operation between an array and a plain number"""
    mn = full_like(mx, n.item() if hasattr(n, "item") else n)  # the model computes with the plain Python number
    if form == "x+n":
        return x + n, expected("+", mx, mn)
    if form == "n+x":
        return n + x, expected("+", mn, mx)
    if form == "x-n":
        return x - n, expected("-", mx, mn)
    if form == "n-x":
        return n - x, expected("-", mn, mx)
    if form == "x*n":
        return x * n, expected("*", mx, mn)
    if form == "n*x":
        return n * x, expected("*", mn, mx)
    if form == "x/n":
        return x / n, expected("/", mx, mn)
    if form == "n/x":
        exp = expected("/", mn, mx)  # may raise ZeroDivisionError before flodym is asked
        return n / x, exp
    return x**n, expected("**", mx, mn)


def run_case(desc):
    U = desc["universe"]
    form = desc["form"]
    xd = desc["x"]
    mode = xd["mode"]
    x = build.array(U, xd)
    mx = build.marr(U, xd)
    snap_x = build.snapshot(x)
    classes = [f"form:{form}", f"mode:{mode}"]
    if gen.is_permuted(U, xd["letters"]):
        classes.append("x-permuted")
    if len(xd["letters"]) == 0:
        classes.append("x-0d")
    scale = 0.0
    if mode in ("float", "int"):
        scale = float(sum(abs(v) for v in mx.data.values()))
    nontrivial = False
    z = snap_z = None
    if desc.get("prelude") and mode in ("float", "int") :
        # an unrelated array of the same dims was updated IN PLACE earlier in the session; what the later
        # out-of-place operations return must not depend on that, and must leave that array alone
        import numpy as np

        z = build.array(U, dict(xd, tag="z"))
        mz = build.marr(U, dict(xd, tag="z"))
        how = desc["prelude"]
        if how == "abs":
            z.abs(inplace=True)
            mz = mz.map(abs)
        elif how == "sign":
            z.sign(inplace=True)
            mz = mz.map(_sign)
        else:
            z.apply(np.negative, inplace=True)
            mz = mz.map(lambda v: -v)
        dz = model.diff(mz, MArr.from_flodym(z), eq_mixed(scale))
        require(dz is None, "inplace-unary-wrong", f"{how}(inplace=True): {dz}")
        snap_z = build.snapshot(z)
        classes.append(f"after-inplace-{how}-on-another-array")

    if form == "binary":
        op = desc["op"]
        yd = desc["y"]
        y = build.array(U, yd)
        my = build.marr(U, yd)
        snap_y = build.snapshot(y)
        if mode in ("float", "int"):
            scale += float(sum(abs(v) for v in my.data.values()))
        classes.append(f"op:{op}")
        if gen.is_permuted(U, yd["letters"]):
            classes.append("y-permuted")
        if len(yd["letters"]) == 0:
            classes.append("y-0d")
        common = [l for l in xd["letters"] if l in yd["letters"]]
        if gen.has_equal_lengths(U, set(xd["letters"]) | set(yd["letters"])):
            classes.append("equal-lengths")
        nontrivial = (
            set(xd["letters"]) != set(yd["letters"])
            or common != [l for l in yd["letters"] if l in xd["letters"]]
            or not xd["letters"]
            or not yd["letters"]
        )
        try:
            exp = expected(op, mx, my)
        except KeyError:
            try:
                apply_flodym(op, x, y)
            except Exception:
                return {"nontrivial": True, "classes": classes + ["pow-rejected"]}
            raise Violation("pow-accepts-foreign-dimension", f"x{xd['letters']} ** y{yd['letters']} did not raise")
        except ZeroDivisionError:
            from vlib.runner import Discard

            raise Discard("zero denominator")
        res = apply_flodym(op, x, y)
        require(build.snapshot(y) == snap_y, "operand-modified", f"y changed by {op}")
        bucket = f"binary-{ {'+':'add','-':'sub','*':'mul','/':'div','**':'pow','min':'min','max':'max'}[op] }"
    elif form in NUM_FORMS:
        n = desc["num"]
        nt_ = desc.get("num_type")
        if nt_:
            # the plain number is a numpy scalar (what x.sum_values(), values.max() or np.sqrt(2) hand out)
            import numpy as np

            n = getattr(np, nt_)(n)
            classes.append(f"number:{nt_}")
        classes.append(f"op:{form}")
        try:
            res, exp = num_form(form, x, mx, n)
        except ZeroDivisionError:
            from vlib.runner import Discard

            raise Discard("zero denominator")
        nontrivial = form[0] == "n" or len(xd["letters"]) != 1
        bucket = f"number-{form}"
    else:
        classes.append(f"op:{form}")
        if form == "neg":
            res, exp = -x, mx.map(lambda v: -v)
        elif form == "abs":
            res, exp = abs(x), mx.map(abs)
        elif form == "abs_method":
            res, exp = x.abs(), mx.map(abs)
        elif form == "sign":
            import numpy as np

            res, exp = x.apply(np.sign), mx.map(_sign)
        else:
            res, exp = x.sign(), mx.map(_sign)
        nontrivial = len(xd["letters"]) >= 2 or len(xd["letters"]) == 0
        bucket = f"unary-{form}"

    require(build.snapshot(x) == snap_x, "operand-modified", "x changed")
    require(isinstance(res, fd.FlodymArray), bucket, f"result is {type(res).__name__}")
    require(tuple(res.values.shape) == tuple(res.dims.shape), "result-shape-invariant", f"{res.values.shape} vs {res.dims.shape}")
    got = MArr.from_flodym(res)
    eq = model.eq_sym if mode == "sym" else eq_mixed(scale)
    d = model.diff(exp, got, eq)
    require(d is None, bucket, f"{d}; x{xd['letters']} y{desc.get('y', {}).get('letters') if isinstance(desc.get('y'), dict) else desc.get('num')}")
    if desc.get("again") and mode in ("float", "int") and form != "sign":
        # the same operand object (left, right or both) is updated in place and the operation repeated: the second
        # result is computed from the values the operands hold now
        which = desc["again"] if form == "binary" else "x"
        mx2, my2 = mx, (my if form == "binary" else None)
        if which in ("x", "both", True):
            x.values[...] = x.values * 2 + 1
            mx2 = mx.map(lambda v: v * 2 + 1)
        if which in ("y", "both"):
            y.values[...] = y.values * 2 + 1
            my2 = my.map(lambda v: v * 2 + 1)
            snap_y = build.snapshot(y)
        try:
            if form == "binary":
                exp2 = expected(desc["op"], mx2, my2)
                res2 = apply_flodym(desc["op"], x, y)
            elif form in NUM_FORMS:
                res2, exp2 = num_form(form, x, mx2, desc["num"])
            elif form == "neg":
                res2, exp2 = -x, mx2.map(lambda v: -v)
            elif form == "sign_method":
                res2, exp2 = x.sign(), mx2.map(_sign)
            else:
                res2, exp2 = x.abs(), mx2.map(abs)
        except (ZeroDivisionError, KeyError):
            res2 = None
        if res2 is not None:
            sc2 = 2 * scale + len(mx.data) + (len(my.data) if form == "binary" else 0) + 1
            d = model.diff(exp2, MArr.from_flodym(res2), eq_mixed(sc2))
            require(d is None, "stale-result-after-inplace-update", f"{bucket} repeated after operand {which} was updated in place: {d}")
            classes.append(f"repeated-after-inplace-update-of-{which}")
        snap_x = build.snapshot(x)
    if desc.get("followup") and mode in ("float", "int"):
        # a later operation on yet another array: the earlier result (and the bystander z) keep their values
        import numpy as np

        w = build.array(U, dict(xd, tag="w"))
        mw = build.marr(U, dict(xd, tag="w"))
        fu = desc["followup"]
        r2, e2 = {"abs": (lambda: w.abs(), lambda: mw.map(abs)), "sign": (lambda: w.sign(), lambda: mw.map(_sign)),
                  "neg": (lambda: -w, lambda: mw.map(lambda v: -v)), "apply": (lambda: w.apply(np.negative), lambda: mw.map(lambda v: -v))}[fu]
        r2 = r2()
        d2 = model.diff(e2(), MArr.from_flodym(r2), eq_mixed(scale + float(sum(abs(v) for v in mw.data.values()))))
        require(d2 is None, f"unary-{fu}", f"follow-up {fu}: {d2}")
        d = model.diff(exp, MArr.from_flodym(res), eq)
        require(d is None, "earlier-result-changed-by-later-operation", f"{bucket} result after a later {fu}() on another array: {d}")
        classes.append("result-rechecked-after-later-operation")
    if z is not None:
        require(build.snapshot(z) == snap_z, "bystander-array-modified", f"array updated in place before ({desc['prelude']}) changed during {bucket}")
    return {"nontrivial": nontrivial, "classes": classes}


@st.composite
def arith_cases(draw, mode, max_dims=3, max_len=2, forms=("binary", "binary", "binary", "number", "unary")):
    U = draw(gen.universes(min_dims=1, max_dims=max_dims, max_len=max_len, long_dim=8 if mode in ("coded", "int") else 0))
    form = draw(st.sampled_from(list(forms)))
    elems_x = None
    # object-dtype storage (symbols, Fractions) cannot represent 0-d arrays faithfully: numpy hands
    # back the bare object instead of a 0-d ndarray.  0-d operands/results are covered by the float
    # and configs facets, where storage is float64 as in production.
    obj = mode in ("sym", "frac")
    x = draw(gen.arrays(U, modes=(mode,), tag="x", min_dims=1 if obj else 0))
    desc = {"universe": U, "x": x}
    if form == "binary":
        ops = list(BIN_OPS)
        if mode == "sym":
            ops = ["+", "-", "*", "/", "**"]
        op = draw(st.sampled_from(ops))
        ely = None
        if op == "/":
            ely = (
                st.sampled_from(["1", "2", "-3", "1/2", "-5/4", "7"])
                if mode == "frac"
                else st.one_of(st.floats(1e-3, 1e3), st.floats(-1e3, -1e-3))
            )
        if op == "**":
            ely = st.sampled_from(["0", "1", "2", "3"]) if mode == "frac" else st.sampled_from([0.0, 1.0, 2.0, 3.0])
            if mode == "float":
                x = draw(gen.arrays(U, letters=x["letters"], modes=("float",), tag="x", elems=st.floats(-50, 50, allow_nan=False)))
                desc["x"] = x
        if op == "**" and draw(st.integers(0, 3)) > 0:
            yl = draw(gen.ordered_subtuple(x["letters"]))
        else:
            yl = draw(gen.ordered_subtuple(gen.uletters(U), min_size=1 if obj else 0))
            if obj and op in ("+", "-", "min", "max") and not set(yl) & set(x["letters"]):
                yl = yl + [x["letters"][0]]
        if obj and op == "**" and not yl:
            yl = [x["letters"][0]]
        ymode = mode
        if mode == "sym" and op == "**":
            ymode = "frac"
            ely = st.sampled_from(["0", "1", "2", "3"])
        y = draw(gen.arrays(U, letters=yl, modes=(ymode,), tag="y", elems=ely))
        desc.update(form="binary", op=op, y=y)
    elif form == "number":
        f = draw(st.sampled_from(NUM_FORMS))
        if f == "x**n":
            n = draw(st.sampled_from([0, 1, 2, 3]))
            if mode == "float":
                desc["x"] = draw(gen.arrays(U, letters=x["letters"], modes=("float",), tag="x", elems=st.floats(-50, 50, allow_nan=False)))
        elif f == "x/n":
            n = draw(st.sampled_from([2, -4, 0.5, 3]))
        else:
            n = draw(st.sampled_from([0, 1, 2, -3, 0.5, 2.5]))
        if f == "n/x" and mode in ("frac", "float"):
            el = st.sampled_from(["1", "2", "-3", "1/2"]) if mode == "frac" else st.one_of(st.floats(1e-3, 1e3), st.floats(-1e3, -1e-3))
            desc["x"] = draw(gen.arrays(U, letters=x["letters"], modes=(mode,), tag="x", elems=el))
        desc.update(form=f, num=n)
        if mode in ("float", "int") and f != "x**n":
            desc["num_type"] = draw(st.sampled_from([None, None, "float64", "int64" if float(n) == int(n) else "float64", "float32" if float(n) in (0.0, 0.5, 1.0, 2.0, 2.5, -3.0, -4.0, 3.0) else "float64"]))
    else:
        forms_u = ["neg", "abs", "abs_method"] if mode == "sym" else UNARY
        desc.update(form=draw(st.sampled_from(forms_u)))
    if mode in ("float", "int"):
        desc["prelude"] = draw(st.sampled_from([None, None, None, "abs", "sign", "apply"]))
        desc["followup"] = draw(st.sampled_from([None, None, "abs", "sign", "neg", "apply"]))
        if desc.get("op") != "**" and desc.get("form") != "x**n":
            desc["again"] = draw(st.sampled_from([None, "x", "y", "both"]))
    return desc


class Sym(Facet):
    name = "sym"
    examples = {"quick": 1600, "thorough": 120000}
    shards = {"quick": 16, "thorough": 16}

    def strategy(self, tier):
        return arith_cases("sym", max_dims=3 if tier == "quick" else 4, max_len=2)

    def run(self, desc):
        return run_case(desc)


class Exact(Facet):
    name = "exact"
    examples = {"quick": 3000, "thorough": 180000}
    shards = {"quick": 8, "thorough": 16}

    def strategy(self, tier):
        return arith_cases("frac", max_dims=4, max_len=3)

    def run(self, desc):
        return run_case(desc)


class IntStored(Facet):
    """Integer-valued entries stored with an integer dtype (legitimate input, e.g. np.arange data):
    out-of-place arithmetic is over the reals, so x + 0.5, x / y, 2.5 - x ... follow the same rules."""

    name = "intstored"
    examples = {"quick": 2400, "thorough": 120000}
    shards = {"quick": 8, "thorough": 16}

    def strategy(self, tier):
        return arith_cases("int", max_dims=3, max_len=3)

    def run(self, desc):
        if desc.get("form") == "binary" and desc.get("op") == "**":
            from vlib.runner import Discard

            raise Discard("integer ** integer array: numpy refuses negative integer powers")
        return run_case(desc)


class Float(Facet):
    name = "float"
    examples = {"quick": 3000, "thorough": 180000}
    shards = {"quick": 8, "thorough": 16}

    def strategy(self, tier):
        return arith_cases("float", max_dims=4, max_len=3 if tier == "quick" else 4)

    def run(self, desc):
        return run_case(desc)


def _subtuples(letters):
    out = []
    for r in range(len(letters) + 1):
        for c in itertools.combinations(letters, r):
            out.extend(list(p) for p in itertools.permutations(c))
    return out


class Configs(Facet):
    """Every ordered pair of ordered sub-tuples x every length pattern x operators."""

    name = "configs"
    exhaustive = True
    shards = {"quick": 16, "thorough": 16}

    def enumerate(self, tier):
        letters = "abc" if tier == "quick" else "abcd"
        lens_choices = [1, 2] if tier == "quick" else [1, 2]
        ops = ["+", "*"] if tier == "quick" else ["+", "-", "*", "min", "max", "**"]
        subs = _subtuples(letters)
        for lens in itertools.product(lens_choices, repeat=len(letters)):
            U = {
                "dims": [
                    {"letter": l, "name": gen.NAMES[l], "items": gen.items_for(l, k, n, "str"), "dtype": "str"}
                    for k, (l, n) in enumerate(zip(letters, lens))
                ]
            }
            if tier == "thorough" and sum(lens) not in (4, 6, 8) and lens != (2, 2, 1, 2):
                # all-ones, two mixed patterns and all-equal; the pair space stays complete for each
                continue
            for xs in subs:
                for ys in subs:
                    for op in ops:
                        y = {"letters": ys, "mode": "coded", "tag": "y"}
                        if op == "**":
                            y = {"letters": ys, "mode": "float", "tag": "y", "vals": [2.0, 1.0, 3.0, 0.0]}
                        yield {
                            "universe": U,
                            "form": "binary",
                            "op": op,
                            "x": {"letters": xs, "mode": "coded", "tag": "x"},
                            "y": y,
                        }

    def run(self, desc):
        return run_case(desc)


Prop(
    "C01",
    "exploration",
    "Generated (universe, x dims/order, y dims/order | number | unary, operator, values). sym: sympy symbols per "
    "entry, result compared with the label-dict model as a polynomial/rational identity (decides all real values "
    "for that configuration); exact: Fractions; float: float64 with 1e-9 relative tolerance to the magnitude that "
    "entered; configs: complete enumeration of ordered operand pairs over a 3-dim (thorough 4-dim) universe with "
    "label-coded values. Non-trivial = operand dimension sets differ, or shared dims stored in different order, or a "
    "reflected/number/0-d form. distinct = SHA-1 of the case descriptor.",
    [Sym(), Exact(), Float(), IntStored(), Configs()],
    assumptions=[
        "float64/object storage (integer-dtype storage is outside the property)",
        "division cases with a zero denominator are discarded (counted)",
        "pow exponents are small non-negative integers so results stay real",
    ],
)
