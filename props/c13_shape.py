"""C13 - arrays always have the shape of their dimensions; failed calls change nothing.

Facet ``history``: generated step lists (constructors, operators, reductions, casts, slicing,
assignment, set_values, in-place functions, import, stocks) over a pool of arrays, mixed with
deliberately ill-formed calls.  After every step: every pooled array satisfies
values.shape == dims.shape over distinct letters; an ill-formed call must raise; and whenever a
step raised, the deep snapshot of every pooled object equals the pre-step snapshot.
"""
from __future__ import annotations

import numpy as np
from hypothesis import strategies as st

from vlib import build, gen
from vlib.build import fd
from vlib.runner import Facet, Prop, Violation, require

OPS = [
    "new", "new_bad", "full", "full_like", "scalar", "superset", "superset_bad", "binop", "pow_bad", "unary", "sum_to",
    "sum_bad", "cast", "cast_bad", "shares", "getitem", "getitem_bad", "setitem_arr", "setitem_arr_bad", "setitem_num",
    "setitem_nd", "setall_nd_bad", "set_values", "set_values_bad", "set_values_arr", "set_values_num", "inplace",
    "cumsum_bad", "copy", "split", "stack", "from_df", "set_df_bad", "stock", "stock_bad", "to_stock_type",
    "set_values_bad", "setall_nd_bad", "new_bad", "other_len", "other_len", "inplace_bad", "inplace_bad", "apply_fn", "apply_fn", "unary", "dup_letters", "dup_letters",
]

step = st.fixed_dictionaries(
    {
        "op": st.sampled_from(OPS),
        "i": st.integers(0, 9),
        "j": st.integers(0, 9),
        "sel": st.lists(st.integers(0, 5), max_size=4),
        "k": st.integers(0, 5),
        "how": st.integers(0, 5),
    }
)


def bad_shape(shape, how):
    shape = list(shape)
    cands = []
    if len(shape) >= 2:
        cands.append(shape[::-1])
        cands.append(shape[1:])
        cands.append(shape[:-1])
    cands.append(shape + [1])
    cands.append([1] * len(shape) if shape else [1])
    cands.append([n + 1 for n in shape] if shape else [2])
    cands.append([])
    cands = [c for c in cands if list(c) != shape]
    return tuple(cands[how % len(cands)])


def run_history(desc):
    U = desc["universe"]
    allL = gen.uletters(U)
    items = build.uitems(U)
    pool = []  # FlodymArrays
    stocks = []
    n_fail = n_ok_mut = 0
    classes = set()
    mutated_ok = set()
    mutated_fail = set()

    def pick_letters(sel, min_size=0):
        out = []
        for x in sel:
            l = allL[x % len(allL)]
            if l not in out:
                out.append(l)
        while len(out) < min_size:
            out.append([l for l in allL if l not in out][0])
        return out

    mems = ["C", "F", "T", "S"]

    def mk(letters, tag="x"):
        mk.n += 1
        return build.array(U, {"letters": letters, "mode": "coded", "tag": tag, "mem": mems[mk.n % 4]})

    mk.n = 0

    pool.append(mk(pick_letters(desc["start"], 1)))

    def all_arrays():
        out = list(pool)
        for s in stocks:
            out += [s.stock, s.inflow, s.outflow]
        return out

    def invariant(where):
        for n, a in enumerate(all_arrays()):
            require(isinstance(a.values, np.ndarray), "values-not-ndarray", f"after {where}: {type(a.values).__name__}")
            require(tuple(a.values.shape) == tuple(a.dims.shape), "shape-invariant-broken", f"after {where}: values {a.values.shape} dims {a.dims.shape}")
            require(len(set(a.dims.letters)) == len(a.dims.letters), "duplicate-letters", f"after {where}: {a.dims.letters}")

    def snap():
        return [build.snapshot(a) for a in all_arrays()]

    for s in desc["steps"]:
        op = s["op"]
        a = pool[s["i"] % len(pool)]
        b = pool[s["j"] % len(pool)]
        ai = s["i"] % len(pool)
        al = list(a.dims.letters)
        before = snap()
        must_raise = False
        may_raise = False
        call = None
        add = []  # new arrays produced
        mut = None

        if op in ("new", "new_bad"):
            letters = pick_letters(s["sel"])
            ds = build.dimset(U, letters)
            shape = ds.shape
            if op == "new_bad":
                if s["how"] == 5 and letters:
                    call = lambda: fd.FlodymArray(dims=ds, values=3.0)  # a number for a >0-dim array
                elif s["how"] == 4:
                    call = lambda: fd.FlodymArray(dims=ds, values=[[1.0]])  # not an ndarray
                else:
                    bs = bad_shape(shape, s["how"])
                    call = lambda: fd.FlodymArray(dims=ds, values=np.zeros(bs))
                must_raise = True
            else:
                call = lambda: add.append(fd.FlodymArray(dims=ds, values=np.ones(shape)))
        elif op == "full":
            ds = build.dimset(U, pick_letters(s["sel"]))
            call = lambda: add.append(fd.FlodymArray.full(ds, 2.5))
        elif op == "full_like":
            call = lambda: add.append(fd.FlodymArray.full_like(a, 1.5))
        elif op == "scalar":
            call = lambda: add.append(fd.FlodymArray.scalar(4.0))
        elif op == "superset":
            call = lambda: add.append(fd.FlodymArray.from_dims_superset(build.dimset(U), tuple(pick_letters(s["sel"]))))
        elif op == "superset_bad":
            call = lambda: fd.FlodymArray.from_dims_superset(build.dimset(U, al), tuple(al) + ("q",))
            must_raise = True
        elif op == "dup_letters":
            # a selection that names the same dimension twice (by letter, or by letter and by name) can never be the
            # dimension set of an array: every constructor has to refuse it
            full = build.dimset(U)
            l = allL[s["k"] % len(allL)]
            m = allL[(s["k"] + 1) % len(allL)]
            nm = build.udim(U, l)["name"]
            sel = [(l, l), (l, nm), (l, m, l), (nm, l)][s["how"] % 4]
            nvals = lambda: np.ones(tuple(len(items[x if x in items else l]) for x in sel))
            call = [
                lambda: add.append(fd.FlodymArray.from_dims_superset(full, sel)),
                lambda: add.append(fd.FlodymArray(dims=full.get_subset(sel))),
                lambda: add.append(fd.Parameter(dims=full[sel], values=nvals())),
                lambda: add.append(fd.Flow(dims=full[sel], values=nvals(), from_process=fd.Process(name="p1", id=1), to_process=fd.Process(name="p2", id=2))),
                lambda: add.append(fd.StockArray(dims=full.get_subset(sel), values=nvals())),
            ][s["j"] % 5]
            must_raise = True
        elif op == "binop":
            o = ["+", "-", "*", "/", "min", "max"][s["k"] % 6]
            from props.c01_arith import apply_flodym

            call = lambda: add.append(apply_flodym(o, a, b))
        elif op == "pow_bad":
            extra = [l for l in allL if l not in al]
            if not extra:
                continue
            y = mk([extra[0]], "y")
            call = lambda: a**y
            must_raise = True
        elif op == "unary":
            call = lambda: add.append([lambda: -a, lambda: abs(a), lambda: a.sign(), lambda: a.apply(np.exp2)][s["k"] % 4]())
        elif op == "sum_to":
            keep = [l for l in pick_letters(s["sel"]) if l in al]
            call = lambda: add.append(a.sum_to(tuple(keep)))
        elif op == "sum_bad":
            extra = [l for l in allL if l not in al] + ["q"]
            call = lambda: a.sum_to(tuple(al[:1]) + (extra[0],))
            must_raise = True
        elif op == "cast":
            tgt = al + [l for l in pick_letters(s["sel"]) if l not in al]
            tgt = tgt[s["k"] % len(tgt):] + tgt[: s["k"] % len(tgt)] if tgt else tgt
            call = lambda: add.append(a.cast_to(build.dimset(U, tgt)))
        elif op == "cast_bad":
            if not al:
                continue
            tgt = al[1:] + [l for l in allL if l not in al][:1]
            call = lambda: a.cast_to(build.dimset(U, tgt))
            must_raise = True
        elif op == "shares":
            if not al:
                continue
            call = lambda: add.append((abs(a) + 1.0).get_shares_over(tuple(al[:1])))
        elif op == "getitem":
            if not al:
                continue
            l = al[s["k"] % len(al)]
            it = items[l]
            key = [{l: it[0]}, it[-1], {l: fd.Dimension(letter=l.upper(), name="Sub " + l, items=it[::-1][: max(1, len(it) - 1)])}, Ellipsis][s["how"] % 4]
            call = lambda: add.append(a[key])
        elif op == "getitem_bad":
            if not al:
                continue
            l = al[s["k"] % len(al)]
            key = ["nope", {l: "nope"}, slice(0, 1), {l: fd.Dimension(letter=l.upper(), name="Sub " + l, items=["nope"])}, {"q": 1}][s["how"] % 5]
            call = lambda: a[key]
            must_raise = True
        elif op in ("setitem_arr", "setitem_arr_bad", "setitem_num", "setitem_nd"):
            sel = {}
            if al and s["how"] % 2:
                l = al[s["k"] % len(al)]
                sel = {l: items[l][s["how"] % len(items[l])]}
            rl = [l for l in al if l not in sel]
            key = sel if sel else Ellipsis
            mut = ai
            if op == "setitem_arr":
                yl = rl + [l for l in pick_letters(s["sel"]) if l not in rl][:1]
                y = mk(yl[::-1], "y")

                def call():
                    a[key] = y
            elif op == "setitem_arr_bad":
                if not rl:
                    continue
                y = mk(rl[1:], "y")
                must_raise = True

                def call():
                    a[key] = y
            elif op == "setitem_num":

                def call():
                    a[key] = 7.0
            else:
                nd = np.full([len(items[l]) for l in rl], 2.0)

                def call():
                    a[key] = nd
        elif op == "other_len":
            # an operand whose dimension has the SAME letter but another number of items (a subset or
            # single-item version that kept its letter): the call may raise or not, but the invariant
            # must survive and a raising call must change nothing
            if not al:
                continue
            l = al[s["k"] % len(al)]
            its = list(a.dims[l].items)
            if s["how"] % 3 == 0:
                other_items = its[:1]
            elif s["how"] % 3 == 1:
                other_items = its + ["extra item"]
            else:
                other_items = its[: max(1, len(its) - 1)] if len(its) > 1 else its + ["extra item"]
            dl = [a.dims[x] if x != l else fd.Dimension(letter=l, name=a.dims[l].name, items=other_items) for x in al]
            ods = fd.DimensionSet(dim_list=dl)
            y = fd.FlodymArray(dims=ods, values=np.full(ods.shape, 2.0))
            mut = ai
            may_raise = True
            which = s["j"] % 6

            def call():
                if which == 0:
                    a[...] = y
                elif which == 1:
                    add.append(a + y)
                elif which == 2:
                    add.append(a * y)
                elif which == 3:
                    a[{l: its[0]}] = y
                elif which == 4:
                    add.append(y.cast_to(a.dims))
                else:
                    a.set_values(y.values)
        elif op == "setall_nd_bad":
            bs = bad_shape(a.dims.shape, s["how"])
            nd = np.full(bs, 2.0)
            must_raise = True
            mut = ai

            def call():
                a[...] = nd
        elif op == "set_values":
            mut = ai
            call = lambda: a.set_values(np.full(a.dims.shape, 3.0))
        elif op == "set_values_bad":
            mut = ai
            bs = bad_shape(a.dims.shape, s["how"])
            call = lambda: a.set_values(np.full(bs, 3.0))
            must_raise = True
        elif op == "set_values_arr":
            mut = ai
            call = lambda: a.set_values(b)
            must_raise = True
        elif op == "set_values_num":
            if not al:
                continue
            mut = ai
            call = lambda: a.set_values(1.25)
        elif op == "inplace":
            mut = ai
            if s["k"] % 4 == 3 and not al:
                continue
            call = [lambda: a.abs(inplace=True), lambda: a.sign(inplace=True), lambda: a.apply(np.negative, inplace=True), lambda: a.cumsum(al[s["how"] % len(al)], inplace=True)][s["k"] % 4]
        elif op == "inplace_bad":
            # ill-formed in-place apply: a binary ufunc without its second operand, a function with missing
            # arguments, a function that raises - all must raise and leave every array as it was
            mut = ai

            def boom(v):
                raise ArithmeticError("function applied to the values failed")

            call = [lambda: a.apply(np.fmax, inplace=True), lambda: a.apply(np.add, inplace=True), lambda: a.apply(np.arctan2, inplace=True), lambda: a.apply(boom, inplace=True),
                    lambda: a.apply(np.fmin), lambda: a.apply(boom)][s["k"] % 6]
            must_raise = True
        elif op == "apply_fn":
            # legitimate shape-preserving functions that are not ufuncs (and accept out=), in place or not
            import functools

            fns = [functools.partial(np.clip, a_min=-1e12, a_max=1e12), np.round, np.nan_to_num, lambda v: v * 1.0, np.sign, np.abs]
            fn = fns[s["k"] % len(fns)]
            if s["how"] % 2:
                mut = ai
                call = lambda: a.apply(fn, inplace=True)
            else:
                call = lambda: add.append(a.apply(fn))
        elif op == "cumsum_bad":
            mut = ai
            call = lambda: a.cumsum("q", inplace=bool(s["how"] % 2))
            must_raise = True
        elif op == "copy":
            call = lambda: add.append(a.copy())
        elif op == "split":
            if not al:
                continue
            call = lambda: add.extend(list(a.split(al[s["k"] % len(al)]).values())[:2])
        elif op == "stack":
            from flodym.flodym_array_helper import flodym_array_stack

            nl = [l for l in allL if l not in al]
            if not nl or len(items[nl[0]]) < 1:
                continue
            d = build.dimension(build.udim(U, nl[0]))
            call = lambda: add.append(flodym_array_stack([a] * len(d.items), d))
        elif op == "from_df":
            if not al or not np.all(np.isfinite(a.values)):
                continue  # NaN cells are refused by the importer (C12), not a shape matter
            call = lambda: add.append(fd.FlodymArray.from_df(dims=a.dims, df=a.to_df(index=bool(s["how"] % 2))))
        elif op == "set_df_bad":
            if not al or a.values.size < 2:
                continue
            df = a.to_df(index=False).iloc[1:]
            mut = ai
            call = lambda: a.set_values_from_df(df)
            must_raise = True
        elif op in ("stock", "stock_bad", "to_stock_type"):
            tl = ["t"] + [l for l in al if l != "t"][:2]
            tds = build.dimset(U, tl)
            if op == "to_stock_type":
                if not stocks:
                    continue
                s0 = stocks[s["k"] % len(stocks)]
                lm = fd.FixedLifetime(dims=s0.dims, mean=2.0)
                call = lambda: stocks.append(s0.to_stock_type(fd.InflowDrivenDSM, lifetime_model=lm)) if not isinstance(s0, fd.DynamicStockModel) else None
            elif op == "stock":
                inflow = build.array(U, {"letters": tl, "mode": "coded", "tag": "y"}, cls=fd.StockArray)

                def call():
                    st_ = [
                        lambda: fd.SimpleFlowDrivenStock(dims=tds, inflow=inflow),
                        lambda: fd.InflowDrivenDSM(dims=tds, inflow=inflow, lifetime_model=fd.NormalLifetime(dims=tds, mean=2.0, std=1.0)),
                        lambda: fd.StockDrivenDSM(dims=tds, stock=inflow, lifetime_model=fd.WeibullLifetime, solver="lapack"),
                    ][s["k"] % 3]()
                    if s["how"] % 2 and not isinstance(st_, fd.StockDrivenDSM):
                        st_.compute()
                    stocks.append(st_)
            else:
                must_raise = True
                how = s["how"] % 6
                wl = None
                if s["i"] % 3 == 2 and len(tl) >= 2:
                    # ALL THREE arrays are given, over the same dimensions among themselves - but not the stock's
                    # (transposed so that time is not first / one dimension missing / non-time dimensions permuted)
                    wl = [tl[::-1], tl[:-1], tl[:1] + tl[1:][::-1], tl + [l_ for l_ in allL if l_ not in tl][:1]][s["k"] % 4]
                if wl is not None and wl != tl:
                    mkw = lambda tag: build.array(U, {"letters": wl, "mode": "coded", "tag": tag}, cls=fd.StockArray)
                    st_cls = [
                        lambda: fd.SimpleFlowDrivenStock(dims=tds, stock=mkw("x"), inflow=mkw("y"), outflow=mkw("z")),
                        lambda: fd.InflowDrivenDSM(dims=tds, stock=mkw("x"), inflow=mkw("y"), outflow=mkw("z"), lifetime_model=fd.NormalLifetime(dims=tds, mean=2.0, std=1.0)),
                        lambda: fd.StockDrivenDSM(dims=tds, stock=mkw("x"), inflow=mkw("y"), outflow=mkw("z"), lifetime_model=fd.FixedLifetime(dims=tds, mean=2.0)),
                    ][s["j"] % 3]
                    call = st_cls
                elif how == 4 and s["k"] % 2 and len(tl) >= 2:
                    # a lifetime parameter over a dimension that shares a letter with a model dimension but is ANOTHER
                    # dimension (one item, or one item more): not a dimension of the model, must be refused
                    l = tl[1 + s["j"] % (len(tl) - 1)]
                    its = list(items[l])
                    other_items = its[:1] if (s["j"] // 2) % 2 == 0 and len(its) > 1 else its + ["extra item"]
                    od = fd.Dimension(letter=l, name="Other " + l, items=other_items)
                    p = fd.FlodymArray(dims=fd.DimensionSet(dim_list=[od]), values=np.full(len(other_items), 2.0))
                    which = s["i"] % 3
                    if which == 0:
                        call = lambda: fd.NormalLifetime(dims=tds, mean=p, std=1.0)
                    elif which == 1:
                        mdl = fd.WeibullLifetime(dims=tds)
                        call = lambda: mdl.set_prms(weibull_shape=2.0, weibull_scale=p)
                    else:
                        call = lambda: fd.InflowDrivenDSM(dims=tds, lifetime_model=fd.FixedLifetime(dims=tds, mean=p))
                elif how == 5:
                    # a lifetime model whose dimensions differ from the stock's although the SHAPE agrees:
                    # non-time dimensions in another order or replaced by another dimension of equal length
                    cands = []
                    rest = tl[1:]
                    for perm in ([rest[::-1]] if len(rest) >= 2 and rest[::-1] != rest else []):
                        if [len(items[l]) for l in perm] == [len(items[l]) for l in rest]:
                            cands.append(["t"] + perm)
                    for i, l in enumerate(rest):
                        for o in allL:
                            if o not in tl and len(items[o]) == len(items[l]):
                                cands.append(["t"] + rest[:i] + [o] + rest[i + 1 :])
                    if not cands:
                        continue
                    ml = cands[s["k"] % len(cands)]
                    lm = fd.NormalLifetime(dims=build.dimset(U, ml), mean=2.0, std=1.0)
                    call = lambda: fd.InflowDrivenDSM(dims=tds, lifetime_model=lm) if s["j"] % 2 else fd.StockDrivenDSM(dims=tds, lifetime_model=lm)
                elif how == 0 and len(tl) >= 2:  # array with permuted / other letters
                    wrong = build.array(U, {"letters": tl[::-1], "mode": "coded", "tag": "y"}, cls=fd.StockArray)
                    call = lambda: fd.SimpleFlowDrivenStock(dims=tds, inflow=wrong)
                elif how == 1 and len(tl) >= 2:  # time not first - for every stock class, model given as class or instance
                    rev = build.dimset(U, tl[::-1])
                    call = [
                        lambda: fd.SimpleFlowDrivenStock(dims=rev),
                        lambda: fd.InflowDrivenDSM(dims=rev, lifetime_model=fd.NormalLifetime),
                        lambda: fd.StockDrivenDSM(dims=rev, lifetime_model=fd.FixedLifetime),
                        lambda: fd.InflowDrivenDSM(dims=rev, lifetime_model=fd.NormalLifetime(dims=rev, mean=2.0, std=1.0)),
                    ][s["k"] % 4]
                elif how == 2 and len(tl) >= 2:  # lifetime model over other dims
                    lm = fd.NormalLifetime(dims=build.dimset(U, tl[:1]), mean=2.0, std=1.0)
                    call = lambda: fd.InflowDrivenDSM(dims=tds, lifetime_model=lm)
                elif how == 3:  # array lacking a dimension
                    wrong = build.array(U, {"letters": tl[:-1] if len(tl) > 1 else [l for l in allL if l != "t"][:1], "mode": "coded", "tag": "y"}, cls=fd.StockArray)
                    call = lambda: fd.InflowDrivenDSM(dims=tds, outflow=wrong, lifetime_model=fd.FixedLifetime)
                else:  # lifetime parameter over a dimension the model does not have
                    extra = [l for l in allL if l not in tl]
                    if not extra:
                        continue
                    p = mk([extra[0]], "y")
                    call = lambda: fd.LogNormalLifetime(dims=tds, mean=p, std=1.0)
        if call is None:
            continue

        raised = None
        try:
            call()
        except Violation:
            raise
        except Exception as e:  # noqa
            raised = e
        classes.add(op)
        if must_raise:
            require(raised is not None, f"accepted-ill-formed-{op}", f"{op} (how={s['how']}) on dims {al}{a.dims.shape} did not raise")
        elif raised is not None and not may_raise:
            from vlib.runner import classify_exception

            v = classify_exception(raised)
            if v is None:
                raise raised
            raise v
        if raised is not None:
            n_fail += 1
            after = snap()
            require(after == before, "failed-call-changed-array", f"{op} raised {type(raised).__name__} but an array changed (dims {al})")
            if mut is not None:
                mutated_fail.add(mut)
        else:
            if mut is not None:
                mutated_ok.add(mut)
            for r in add:
                if isinstance(r, fd.FlodymArray):
                    require(isinstance(r.values, np.ndarray) and tuple(r.values.shape) == tuple(r.dims.shape), "shape-invariant-broken", f"result of {op}: values {np.shape(r.values)} dims {r.dims.shape}")
                    if all(l in allL for l in r.dims.letters):  # sub-dimension results are checked, not pooled
                        pool.append(r)
        invariant(op)
        if len(pool) > 30:
            break
    return {
        "nontrivial": bool(mutated_ok & mutated_fail),
        "classes": sorted(classes) + (["has-failed-step"] if n_fail else []),
    }


class History(Facet):
    name = "history"
    examples = {"quick": 20000, "thorough": 480000}
    shards = {"quick": 16, "thorough": 16}

    def strategy(self, tier):
        n = 25 if tier == "quick" else 50

        @st.composite
        def hist(draw):
            U = draw(gen.universes(min_dims=3, max_dims=4, max_len=3, min_len=1, with_time=True, kinds=("str", "int", "ustr")))
            t = U["dims"][0]
            t["items"] = [2000 + 3 * i for i in range(max(3, len(t["items"])))]
            t["dtype"] = "int"
            return {"universe": U, "start": draw(st.lists(st.integers(0, 5), min_size=1, max_size=3)), "steps": draw(st.lists(step, min_size=1, max_size=n))}

        return hist()

    def run(self, desc):
        return run_history(desc)


Prop(
    "C13",
    "exploration",
    "Generated histories (<= 25, thorough 50 steps) over a pool of arrays and stocks: 39 step kinds covering constructors "
    "(FlodymArray, full, full_like, scalar, from_dims_superset, from_df), operators, reductions, casts, slicing, [] = and "
    "set_values with arrays / ndarrays / numbers, in-place apply/abs/sign/cumsum, copy, split/stack, stocks, to_stock_type, "
    "and ill-formed variants (wrong / transposed / broadcastable shapes, missing dims, unknown items, foreign dims, "
    "non-subset Dimensions, FlodymArray given to set_values, stocks with permuted arrays / time not first / foreign lifetime "
    "model or parameter, incomplete DataFrame). Invariant after every step on every reachable array; ill-formed calls must "
    "raise; any raising step must leave all snapshots equal. Non-trivial = history with >= 1 failed and >= 1 successful "
    "mutation of the same array.",
    [History()],
    assumptions=[
        "direct overwriting of .values / .dims and shape-changing functions passed to apply are outside the contract (as the property states)",
        "a stand-alone lifetime model with time not first is only tested through a stock (where it is rejected)",
    ],
)
