"""C06 - indexing by item labels reads and writes exactly the addressed entries.

Facets
  read   : generated keys (per-dimension selector none / single item / subset Dimension, in every
           position; dict by letter / by name / bare item / tuple syntax) against the label-dict model
  write  : the same keys plus list selectors on the left-hand side, right-hand side a number or a
           region-shaped ndarray; exactly the addressed entries change
  kinds  : exhaustive assignment of selector kinds to the positions of a <=4-dim array
           (equal-length and mixed-length patterns), reads and writes
  errors : unknown items, ambiguous bare items, numpy-style slices, non-subset Dimensions must raise
           and leave the array untouched
  lookup : items_where and split report entries under their true labels
"""
from __future__ import annotations

import itertools

import numpy as np
from hypothesis import strategies as st

from vlib import build, gen, model
from vlib.build import fd
from vlib.model import MArr
from vlib.runner import Discard, Facet, Prop, Violation, require

SUBLETTER = {"a": "A", "b": "B", "c": "C", "d": "D", "e": "E", "f": "F", "g": "G", "h": "H", "t": "T"}


def make_key(U, sel, syntax):
    """Build the flodym key object from the selector descriptor."""
    parts = {}
    for l, s in sel.items():
        d = build.udim(U, l)
        if s["kind"] == "single":
            parts[l] = s["items"][0]
        elif s["kind"] == "list":
            parts[l] = list(s["items"])
            if s.get("as") == "iter":
                parts[l] = iter(list(s["items"]))  # any iterable of items is accepted, also a one-shot one
            elif s.get("as") == "tuple":
                parts[l] = tuple(s["items"])
        else:
            parts[l] = fd.Dimension(letter=SUBLETTER[l], name=d["name"] + " sub", items=list(s["items"]), dtype=build._DT[d.get("dtype")])
    if syntax == "dict_letter":
        return dict(parts)
    if syntax == "dict_name":
        return {build.udim(U, l)["name"]: v for l, v in parts.items()}
    if syntax == "dict_mixed":
        return {(build.udim(U, l)["name"] if i % 2 else l): v for i, (l, v) in enumerate(parts.items())}
    if syntax == "bare":
        (v,) = parts.values()
        return v
    if syntax == "tuple":
        flat = []
        for l, s in sel.items():
            flat.extend(s["items"])
        return tuple(flat)
    if syntax == "tuple_mixed":
        # items of different dimensions interleaved (round robin): ('EUR', 'C', 'USA')
        cols = [list(s["items"]) for s in sel.values()]
        flat = []
        for i in range(max(len(c) for c in cols)):
            for c in cols:
                if i < len(c):
                    flat.append(c[i])
        return tuple(flat)
    if syntax == "ellipsis":
        return Ellipsis
    raise ValueError(syntax)


def region(U, xletters, sel):
    """(letters_out, items_out, map from region letter to original letter)."""
    letters, items, orig = [], {}, {}
    for l in xletters:
        s = sel.get(l)
        d = build.udim(U, l)
        if s is None:
            letters.append(l)
            items[l] = list(d["items"])
            orig[l] = l
        elif s["kind"] == "single":
            continue
        elif s["kind"] == "subset":
            nl = SUBLETTER[l]
            letters.append(nl)
            items[nl] = list(s["items"])
            orig[nl] = l
        else:
            letters.append(l)
            items[l] = list(s["items"])
            orig[l] = l
    return letters, items, orig


def classes_of(U, xletters, sel, syntax):
    kinds = [sel[l]["kind"] if l in sel else "none" for l in xletters]
    cl = [f"syntax:{syntax}", "kinds:" + "".join(k[0] for k in kinds)]
    if len(set(k for k in kinds if k != "none")) >= 2:
        cl.append("mixed-selector-kinds")
    # a kept dimension between two selected ones
    idx = [i for i, k in enumerate(kinds) if k != "none"]
    if idx and any(kinds[i] == "none" for i in range(idx[0], idx[-1])):
        cl.append("kept-dim-between-selected")
    for l, s in sel.items():
        if s["kind"] in ("subset", "list"):
            full = build.udim(U, l)["items"]
            if s["items"] != [i for i in full if i in s["items"]]:
                cl.append("reordered-subset")
                if len(s["items"]) >= 16:
                    cl.append("reordered-subset>=16-items")
                break
    if gen.has_equal_lengths(U, xletters):
        cl.append("equal-lengths")
    return cl, kinds


def run_read(desc):
    U, xd, sel, syntax = desc["universe"], desc["x"], desc["sel"], desc["syntax"]
    x = build.array(U, xd)
    mx = build.marr(U, xd)
    snap = build.snapshot(x)
    cl, kinds = classes_of(U, xd["letters"], sel, syntax)
    key = make_key(U, sel, syntax)
    res = x[key]
    rl, ritems, orig = region(U, xd["letters"], sel)
    singles = {l: s["items"][0] for l, s in sel.items() if s["kind"] == "single"}

    def f(lab):
        full = dict(singles)
        for l in rl:
            full[orig[l]] = lab[l]
        return mx.get(full)

    exp = MArr.from_fn(rl, ritems, f)
    require(tuple(res.values.shape) == tuple(res.dims.shape), "read-shape", f"values {res.values.shape} vs dims {res.dims.shape}; kinds {kinds}")
    d = model.diff(exp, MArr.from_flodym(res))
    require(d is None, "read-wrong-entries", f"{d}; x{xd['letters']} key kinds {kinds}")
    require(build.snapshot(x) == snap, "read-modified-source", "")
    nontrivial = "mixed-selector-kinds" in cl or "reordered-subset" in cl or "kept-dim-between-selected" in cl
    return {"nontrivial": nontrivial, "classes": cl}


def run_write(desc):
    U, xd, sel, syntax, rhs = desc["universe"], desc["x"], desc["sel"], desc["syntax"], desc["rhs"]
    x = build.array(U, xd)
    mx = build.marr(U, xd)
    cl, kinds = classes_of(U, xd["letters"], sel, syntax)
    cl.append(f"rhs:{rhs['kind']}")
    key = make_key(U, sel, syntax)
    rl, ritems, orig = region(U, xd["letters"], sel)
    uorder = gen.uletters(U)

    def rv(lab):  # value of the right-hand side at a region label
        if rhs["kind"] == "number":
            return float(rhs["v"])
        code = 0
        for l in rl:
            code += (ritems[l].index(lab[l]) + 1) * build.code_base(U) ** uorder.index(orig[l])
        return float(-(code * 3 + 1))

    if rhs["kind"] == "number":
        x[key] = rhs["v"]
    else:
        arr = build.ndarray_from_fn(rl, ritems, rv, float)
        keep = arr.copy()
        x[key] = arr
        require(np.array_equal(arr, keep), "write-modified-rhs", "")
    require(tuple(x.values.shape) == tuple(x.dims.shape), "write-shape", f"{x.values.shape} vs {x.dims.shape}")
    require(list(x.dims.letters) == list(xd["letters"]), "write-changed-dims", "")
    singles = {l: s["items"][0] for l, s in sel.items() if s["kind"] == "single"}
    sel_items = {orig[l]: ritems[l] for l in rl}

    def f(lab):
        for l, it in singles.items():
            if lab[l] != it:
                return mx.get(lab)
        for l in xd["letters"]:
            if l in sel_items and lab[l] not in sel_items[l]:
                return mx.get(lab)
        rlab = {}
        for l in rl:
            rlab[l] = lab[orig[l]]
        return rv(rlab)

    exp = MArr.from_fn(xd["letters"], build.uitems(U), f)
    d = model.diff(exp, MArr.from_flodym(x))
    require(d is None, "write-wrong-entries", f"{d}; x{xd['letters']} key kinds {kinds} rhs {rhs['kind']}")
    nontrivial = "mixed-selector-kinds" in cl or "reordered-subset" in cl or "kept-dim-between-selected" in cl
    return {"nontrivial": nontrivial, "classes": cl}


@st.composite
def selectors(draw, U, xletters, allow_list, force_nonempty=False):
    sel = {}
    kinds_pool = ["none", "single", "subset"] + (["list"] if allow_list else [])
    for l in xletters:
        k = draw(st.sampled_from(kinds_pool))
        if k == "none":
            continue
        items = build.udim(U, l)["items"]
        if k == "single":
            falsy = [i for i in items if not i and not isinstance(i, str)]
            if falsy and draw(st.booleans()):
                sel[l] = {"kind": "single", "items": [falsy[0]]}  # the label 0 is a label like any other
            else:
                sel[l] = {"kind": "single", "items": [items[draw(st.integers(0, len(items) - 1))]]}
        else:
            if len(items) >= 3 and draw(st.integers(0, 2)) == 0:
                # a contiguous run of the parent's items in a permuted order (looks "almost like a slice")
                n = draw(st.integers(3, len(items)))
                a = draw(st.integers(0, len(items) - n))
                sub = list(draw(st.permutations(items[a : a + n])))
            elif len(items) >= 8 and draw(st.booleans()):
                # most of a long dimension, newest first or in an arbitrary order
                n = draw(st.integers(len(items) // 2, len(items)))
                a = draw(st.integers(0, len(items) - n))
                sub = list(reversed(items[a : a + n])) if draw(st.booleans()) else list(draw(st.permutations(items[a : a + n])))
            else:
                sub = draw(st.lists(st.sampled_from(items), min_size=1, max_size=len(items), unique=True))
            sel[l] = {"kind": k, "items": sub}
            if k == "list":
                how_ = draw(st.sampled_from(["list", "list", "iter", "tuple"]))
                if how_ != "list":
                    sel[l]["as"] = how_
    # key order in the dict need not follow the array's dimension order
    if len(sel) > 1 and draw(st.booleans()):
        ks = draw(st.permutations(list(sel)))
        sel = {k: sel[k] for k in ks}
    return sel


@st.composite
def index_cases(draw, rw, max_dims=4, max_len=3):
    U = draw(gen.universes(min_dims=draw(st.sampled_from([1, 2, 3, 3])), max_dims=min(max_dims, 4), max_len=max_len, min_len=1, long_dim=5, long_sizes=(12, 16, 17, 24, 33, 48, 300)))
    x = draw(gen.arrays(U, modes=("coded",), min_dims=1, allow_int=(rw == "read")))
    sel = draw(selectors(U, x["letters"], allow_list=(rw == "write")))
    kinds = {s["kind"] for s in sel.values()}
    options = ["dict_letter", "dict_letter", "dict_name", "dict_mixed"]
    if kinds <= {"single"} and len(sel) == 1:
        options.append("bare")
    if kinds <= {"single", "list"} and sel and rw == "write" or (kinds <= {"single"} and sel):
        if all(len(s["items"]) >= 2 for s in sel.values() if s["kind"] == "list"):
            options += ["tuple", "tuple_mixed", "tuple_mixed"]
    if not sel:
        options.append("ellipsis")
    syntax = draw(st.sampled_from(options))
    desc = {"universe": U, "x": x, "sel": sel, "syntax": syntax, "rw": rw}
    if rw == "write":
        desc["rhs"] = draw(st.sampled_from([{"kind": "number", "v": -7.5}, {"kind": "ndarray"}, {"kind": "ndarray"}]))
    return desc


class Read(Facet):
    name = "read"
    examples = {"quick": 8000, "thorough": 240000}
    shards = {"quick": 8, "thorough": 16}

    def strategy(self, tier):
        return index_cases("read", max_dims=4 if tier == "quick" else 5, max_len=5)

    def run(self, desc):
        return run_read(desc)


class Write(Facet):
    name = "write"
    examples = {"quick": 8000, "thorough": 240000}
    shards = {"quick": 8, "thorough": 16}

    def strategy(self, tier):
        return index_cases("write", max_dims=4 if tier == "quick" else 5, max_len=5)

    def run(self, desc):
        return run_write(desc)


class Kinds(Facet):
    """Every assignment of selector kinds to the positions of a 1..4-dim array, for an equal-length
    and a mixed-length pattern, reads (n/s/u) and writes (n/s/u/l)."""

    name = "kinds"
    exhaustive = True
    shards = {"quick": 16, "thorough": 16}

    def enumerate(self, tier):
        maxd = 4
        for nd in range(1, maxd + 1):
            letters = list("abcd"[:nd])
            for lens in ([2] * nd, [2, 3, 2, 3][:nd], [3, 1, 2, 2][:nd]):
                U = {"dims": [{"letter": l, "name": gen.NAMES[l], "items": gen.items_for(l, k, n, "str"), "dtype": "str"} for k, (l, n) in enumerate(zip(letters, lens))]}
                orders = [letters] if tier == "quick" else [letters, letters[::-1]]
                for order in orders:
                    for rw, kpool in (("read", "nsu"), ("write", "nsul")):
                        for kinds in itertools.product(kpool, repeat=nd):
                            sel = {}
                            for l, k in zip(order, kinds):
                                items = build.udim(U, l)["items"]
                                if k == "s":
                                    sel[l] = {"kind": "single", "items": [items[-1]]}
                                elif k in "ul":
                                    sub = list(reversed(items))[: max(1, len(items) - 1)] if len(items) > 1 else list(items)
                                    if len(items) == 2:
                                        sub = [items[1], items[0]]
                                    sel[l] = {"kind": "subset" if k == "u" else "list", "items": sub}
                            d = {"universe": U, "x": {"letters": order, "mode": "coded", "tag": "x"}, "sel": sel, "syntax": "dict_letter", "rw": rw}
                            if rw == "write":
                                d["rhs"] = {"kind": "ndarray"}
                            yield d

    def run(self, desc):
        return run_read(desc) if desc["rw"] == "read" else run_write(desc)


# --------------------------------------------------------------------------- sequences


@st.composite
def sequence_cases(draw):
    """Several similar keys applied one after the other to the SAME array object (reads and writes)."""
    U = draw(gen.universes(min_dims=2, max_dims=4, max_len=6, min_len=1, long_dim=6))
    x = draw(gen.arrays(U, modes=("coded",), min_dims=2))
    steps = []
    sel = draw(selectors(U, x["letters"], allow_list=True))
    for i in range(draw(st.integers(2, 4))):
        if i > 0:
            # a similar key: same dims and selector kinds; interiors of the item lists shuffled or one item exchanged
            sel = {l: dict(v, items=list(v["items"])) for l, v in sel.items()}
            for l, v in sel.items():
                full = build.udim(U, l)["items"]
                its = v["items"]
                how = draw(st.integers(0, 3))
                if v["kind"] == "single":
                    if how == 0:
                        v["items"] = [full[draw(st.integers(0, len(full) - 1))]]
                elif how == 1 and len(its) >= 4:
                    mid = list(draw(st.permutations(its[1:-1])))
                    v["items"] = [its[0]] + mid + [its[-1]]
                elif how == 2 and len(its) >= 3:
                    rest = [f for f in full if f not in its]
                    if rest:
                        k = draw(st.integers(1, len(its) - 2))
                        v["items"] = its[:k] + [rest[draw(st.integers(0, len(rest) - 1))]] + its[k + 1 :]
                elif how == 3:
                    v["items"] = list(draw(st.permutations(its)))
        rw = draw(st.sampled_from(["read", "read", "write"]))
        if rw == "read" and any(v["kind"] == "list" for v in sel.values()):
            rw = "write"
        stp = {"sel": {l: dict(v) for l, v in sel.items()}, "rw": rw, "rhs": draw(st.sampled_from([{"kind": "number", "v": -7.5}, {"kind": "ndarray"}]))}
        if draw(st.integers(0, 2)) == 0:
            n_ = len(x["letters"])
            stp["derive"] = {"how": draw(st.sampled_from(["sum_to", "sum_to", "cast_to", "neg", "subset"])), "perm": list(draw(st.permutations(list(range(n_)))))}
        steps.append(stp)
    return {"universe": U, "x": x, "steps": steps, "copy_between": draw(st.booleans()), "same_key_object": draw(st.booleans())}


def run_sequence(desc):
    U, xd = desc["universe"], desc["x"]
    x = build.array(U, xd)
    cur = build.marr(U, xd)
    uorder = gen.uletters(U)
    n_lists = 0
    key_obj = {}
    for si, stp in enumerate(desc["steps"]):
        sel = stp["sel"]
        key = make_key(U, sel, "dict_letter")
        if desc.get("same_key_object"):
            # a loop that keeps ONE selection dict and updates it in place between the accesses (sel['t'] = year)
            fresh = key
            key = key_obj
            for k_ in [k_ for k_ in key if k_ not in fresh]:
                del key[k_]
            for k_, v_ in fresh.items():
                if isinstance(v_, list) and isinstance(key.get(k_), list):
                    key[k_][:] = v_  # the list inside the key is edited in place as well
                else:
                    key[k_] = v_
        rl, ritems, orig = region(U, xd["letters"], sel)
        singles = {l: s_["items"][0] for l, s_ in sel.items() if s_["kind"] == "single"}
        if stp["rw"] == "read":
            res = x[key]

            def f(lab):
                full = dict(singles)
                for l in rl:
                    full[orig[l]] = lab[l]
                return cur.get(full)

            exp = MArr.from_fn(rl, ritems, f)
            require(tuple(res.values.shape) == tuple(res.dims.shape), "read-shape", f"step {si}")
            d = model.diff(exp, MArr.from_flodym(res))
            require(d is None, "sequence-read-wrong-entries", f"step {si} of {len(desc['steps'])} on the same array: {d}; keys {[{l: v['items'] for l, v in s_['sel'].items()} for s_ in desc['steps'][: si + 1]]}")
        else:
            rhs = stp["rhs"]

            def rv(lab, si=si):
                if rhs["kind"] == "number":
                    return float(rhs["v"]) - si
                code = 0
                for l in rl:
                    code += (ritems[l].index(lab[l]) + 1) * build.code_base(U) ** uorder.index(orig[l])
                return float(-(code * 3 + 1 + si))

            if rhs["kind"] == "number":
                x[key] = float(rhs["v"]) - si
            else:
                x[key] = build.ndarray_from_fn(rl, ritems, rv, float)
            sel_items = {orig[l]: ritems[l] for l in rl}

            def f(lab, cur=cur):
                for l, it in singles.items():
                    if lab[l] != it:
                        return cur.get(lab)
                for l in xd["letters"]:
                    if l in sel_items and lab[l] not in sel_items[l]:
                        return cur.get(lab)
                return rv({l: lab[orig[l]] for l in rl})

            cur = MArr.from_fn(xd["letters"], build.uitems(U), f)
            d = model.diff(cur, MArr.from_flodym(x))
            require(d is None, "sequence-write-wrong-entries", f"step {si}: {d}")
        n_lists += sum(1 for v in sel.values() if v["kind"] != "single" and len(v["items"]) >= 4)
        if desc.get("copy_between") and si == 0:
            x = x.copy()
        d_ = stp.get("derive")
        if d_:
            # continue on an array DERIVED from the one that was just indexed (same data, maybe another dim order)
            perm = [xd["letters"][i] for i in d_["perm"]] if d_.get("perm") else list(xd["letters"])
            if d_["how"] == "sum_to":
                x = x.sum_to(tuple(perm))
            elif d_["how"] == "cast_to":
                x = x.cast_to(x.dims.get_subset(tuple(perm)))
            elif d_["how"] == "neg":
                x = -(-x)
                perm = list(xd["letters"])
            else:
                x = x.dims and fd.FlodymArray(dims=x.dims[tuple(perm)], values=np.transpose(x.values, [xd["letters"].index(l) for l in perm]).copy())
            cur = cur.reorder(perm)
            xd = dict(xd, letters=perm)
    return {"nontrivial": len(desc["steps"]) >= 2, "classes": [f"steps:{len(desc['steps'])}"] + (["long-subsets"] if n_lists >= 2 else [])}


class Sequence(Facet):
    name = "sequence"
    examples = {"quick": 6000, "thorough": 240000}
    shards = {"quick": 16, "thorough": 16}

    def strategy(self, tier):
        return sequence_cases()

    def run(self, desc):
        return run_sequence(desc)


# ----------------------------------------------------------------------------- errors


def raises(fn):
    try:
        fn()
    except Exception:
        return True
    return False


@st.composite
def error_cases(draw):
    U = draw(gen.universes(min_dims=2, max_dims=3, max_len=3, kinds=("str", "ustr")))
    x = draw(gen.arrays(U, modes=("coded",), min_dims=2))
    kind = draw(st.sampled_from(["unknown-item", "unknown-in-dict", "ambiguous", "ambiguous-in-tuple", "ambiguous-in-tuple", "unknown-convertible", "unknown-convertible", "slice", "not-subset", "unknown-dim", "unknown-in-list", "read-with-list", "read-with-tuple-list"]))
    return {"universe": U, "x": x, "kind": kind, "pos": draw(st.integers(0, 3)), "write": draw(st.booleans()), "tvar": draw(st.integers(0, 5))}


def run_error(desc):
    U, xd, kind = desc["universe"], desc["x"], desc["kind"]
    U = {"dims": [dict(d) for d in U["dims"]]}
    letters = xd["letters"]
    l0 = letters[desc["pos"] % len(letters)]
    l1 = letters[(desc["pos"] + 1) % len(letters)]
    if kind in ("ambiguous", "ambiguous-in-tuple"):
        # the same item label occurs in two dimensions of the array
        shared = "same"
        for d in U["dims"]:
            if d["letter"] in (l0, l1):
                d["items"] = [shared] + list(d["items"])[1:] if len(d["items"]) > 1 else [shared]
    if kind == "unknown-convertible":
        # the addressed dimension is typed; the unknown item is of ANOTHER type and would turn into a known label if it
        # were converted to the dimension's type (2010.7 -> 2010, '2020' -> 2020, 7 -> '7')
        for d in U["dims"]:
            if d["letter"] == l0:
                n0 = len(d["items"])
                if desc.get("tvar", 0) % 2 == 0:
                    d["items"], d["dtype"] = [2000, 2010, 2020, 2030][:n0], "int"
                else:
                    d["items"], d["dtype"] = ["7", "12", "2020", "3"][:n0], "str"
    x = build.array(U, xd)
    snap = build.snapshot(x)
    it0 = build.udim(U, l0)["items"]
    if kind == "unknown-convertible":
        first = it0[0]
        if isinstance(first, int):
            cands = [first + 0.7, str(first), float(first) + 0.25, str(it0[-1])]
        else:
            cands = [int(first), float(first), int(it0[-1])]
        bad = cands[(desc.get("tvar", 0) // 2) % len(cands)]
        form = desc["pos"] % 3
        key = {l0: bad} if form == 0 else ({build.udim(U, l0)["name"]: bad} if form == 1 else {l0: [it0[0], bad]})
    elif kind == "unknown-item":
        key = "no-such-item"
    elif kind == "unknown-in-dict":
        key = {l0: "no-such-item"}
    elif kind == "unknown-in-list":
        key = {l0: [it0[0], "no-such-item"]}
    elif kind == "ambiguous":
        key = "same"
    elif kind == "ambiguous-in-tuple":
        # the ambiguous label inside a tuple key, next to items of one of the dimensions that hold it, of the
        # other one, or of an unrelated dimension - before or after them
        o0 = [i for i in it0 if i != "same"]
        o1 = [i for i in build.udim(U, l1)["items"] if i != "same"]
        o2 = [i for l in letters if l not in (l0, l1) for i in build.udim(U, l)["items"][:1]]
        variants = [tuple(o0[:1]) + ("same",), ("same",) + tuple(o0[:1]), tuple(o1[:1]) + ("same",), tuple(o2) + tuple(o0[:1]) + ("same",),
                    tuple(o0[:1]) + tuple(o2) + ("same",), tuple(o0[:2]) + ("same",)]
        key = variants[desc.get("tvar", 0) % len(variants)]
    elif kind == "slice":
        key = slice(0, 1)
    elif kind == "unknown-dim":
        key = {"z": it0[0]}
    elif kind == "read-with-list":
        key = {l0: list(it0[:2]) if len(it0) > 1 else [it0[0], it0[0]]}
    elif kind == "read-with-tuple-list":
        if len(it0) < 2:
            key = {l0: [it0[0], it0[0]]}
        else:
            key = (it0[0], it0[1])
    else:
        key = {l0: fd.Dimension(letter=SUBLETTER[l0], name="Sub", items=[it0[0], "no-such-item"])}
    if kind.startswith("read-with"):
        # several items of one dimension given as a list can be written to but not read (documented)
        def fn():
            return x[key]
    elif desc["write"] or kind == "unknown-in-list" or (kind == "ambiguous-in-tuple" and len(key) > 2) or (kind == "unknown-convertible" and isinstance(list(key.values())[0], list)):
        def fn():
            x[key] = 1.0
    else:
        def fn():
            return x[key]
    require(raises(fn), f"accepts-{kind}", f"key {key!r} on dims {letters} ({'write' if desc['write'] else 'read'}) did not raise")
    require(build.snapshot(x) == snap, "failed-indexing-changed-array", kind)
    if kind == "ambiguous":
        # naming the dimension resolves the ambiguity
        r = x[{l0: "same"}]
        mx = build.marr(U, xd)
        exp = MArr.from_fn([l for l in letters if l != l0], build.uitems(U), lambda lab: mx.get(dict(lab, **{l0: "same"})))
        d = model.diff(exp, MArr.from_flodym(r))
        require(d is None, "read-wrong-entries", f"ambiguous item with named dimension: {d}")
    return {"nontrivial": True, "classes": [f"error:{kind}", "write" if desc["write"] else "read"]}


class Errors(Facet):
    name = "errors"
    examples = {"quick": 1500, "thorough": 60000}
    shards = {"quick": 4, "thorough": 16}

    def strategy(self, tier):
        return error_cases()

    def run(self, desc):
        return run_error(desc)


# ----------------------------------------------------------------------------- lookup


@st.composite
def lookup_cases(draw):
    U = draw(gen.universes(min_dims=1, max_dims=4, max_len=3))
    x = draw(gen.arrays(U, modes=("float",), min_dims=1, elems=st.sampled_from([-2.0, -1.0, 0.0, 1.0, 2.0, 3.0])))
    return {"universe": U, "x": x, "thr": draw(st.sampled_from([-1.5, 0.0, 0.5, 2.5])), "split": draw(st.integers(0, 3))}


def run_lookup(desc):
    U, xd = desc["universe"], desc["x"]
    x = build.array(U, xd)
    mx = build.marr(U, xd)
    thr = desc["thr"]
    got = x.items_where(lambda v: v > thr)
    exp = {tuple(str(i) for i in key) for key in mx.keys() if mx.data[key] > thr}
    got_set = {tuple(str(i) for i in row) for row in np.asarray(got).tolist()} if np.asarray(got).size else set()
    require(got_set == exp, "items_where", f"got {sorted(got_set)[:4]} expected {sorted(exp)[:4]}")
    require(len(np.asarray(got)) == len(exp) or not exp, "items_where", "duplicate rows")
    l = xd["letters"][desc["split"] % len(xd["letters"])]
    parts = x.split(l)
    items = build.udim(U, l)["items"]
    require(list(parts.keys()) == list(items), "split", f"keys {list(parts)} != {items}")
    rest = [k for k in xd["letters"] if k != l]
    for it in items:
        e = MArr.from_fn(rest, build.uitems(U), lambda lab: mx.get(dict(lab, **{l: it})))
        d = model.diff(e, MArr.from_flodym(parts[it]))
        require(d is None, "split", f"{d} (item {it} of {l})")
    # stacking the parts again restores the array (dimension appended last)
    if rest:
        from flodym.flodym_array_helper import flodym_array_stack

        st_ = flodym_array_stack([parts[it] for it in items], build.dimension(build.udim(U, l)))
        e = mx.reorder(rest + [l])
        d = model.diff(e, MArr.from_flodym(st_))
        require(d is None, "stack", str(d))
    return {"nontrivial": len(xd["letters"]) >= 2, "classes": [f"ndim:{len(xd['letters'])}"]}


class Lookup(Facet):
    name = "lookup"
    examples = {"quick": 2000, "thorough": 90000}
    shards = {"quick": 4, "thorough": 16}

    def strategy(self, tier):
        return lookup_cases()

    def run(self, desc):
        return run_lookup(desc)


Prop(
    "C06",
    "exploration",
    "Generated arrays (1-5 dims, label-coded values, all storage orders and length patterns) and keys assigning to "
    "every dimension a selector kind none / single item / subset Dimension (fresh letter, any item order) / list "
    "(writes), written as dict by letter, by name, mixed, bare item or tuple; reads compared entry by entry and by "
    "result dims with the label-dict model, writes (number or region-shaped ndarray) must change exactly the addressed "
    "entries. kinds: exhaustive selector-kind assignment for <= 4 dims (three length patterns; thorough: both storage orders). "
    "sequence: 2-4 similar keys (interiors of item lists shuffled, one item exchanged) applied one after the other to the same array object, "
    "reads and writes, dims of up to 6 items. errors: unknown / ambiguous items, "
    "slices, non-subset Dimensions must raise and leave the array untouched. lookup: items_where / split / stack. "
    "Non-trivial = >=2 selector kinds in one key, or a reordered subset, or a kept dimension between two selected ones.",
    [Read(), Write(), Kinds(), Sequence(), Errors(), Lookup()],
    assumptions=[
        "subset Dimensions carry a fresh letter (the library refuses a replacement with a letter already in the set)",
        "items_where rows are compared as strings (numpy stringifies mixed label types)",
    ],
)
