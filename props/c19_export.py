"""C19 - exports reproduce every flow and stock under its labels.

Facet ``system``     : generated systems -> convert_to_dict (numpy / pandas), pickle, CSV exports of flows
                       and stocks; content compared with the system, files matched one-to-one by content,
                       pandas / CSV forms re-imported with from_df; the system must stay untouched.
Facet ``definition`` : MFADefinition.to_dfs against model_dump().
"""
from __future__ import annotations

import os
import pickle
import re
import tempfile

import numpy as np
import pandas as pd
from hypothesis import strategies as st

from props import c18_build as c18
from vlib import build, gen
from vlib.build import fd
from vlib.runner import Facet, Prop, Violation, require

NAME_PARTS = ["use", "End of Life", "sysenv => use", "a -> b", "waste (mixed)", "Steel: scrap & ore", "fab/1", "P_2", "x-y", "Ueber gabe", "[t] flow", "100%"]


def conservative_key(name):
    return re.sub(r"[^a-z0-9]", "", name.lower())


def snap_system(mfa):
    out = {"flows": {n: build.snapshot(f) for n, f in mfa.flows.items()}}
    out["stocks"] = {n: (build.snapshot(s.stock), build.snapshot(s.inflow), build.snapshot(s.outflow)) for n, s in mfa.stocks.items()}
    out["dims"] = build.snapshot_dims(mfa.dims)
    out["procs"] = [(p.name, p.id) for p in mfa.processes.values()]
    return out


def build_system(desc):
    U = desc["universe"]
    procs = fd.make_processes(list(desc["procs"]))
    pl = list(procs.values())
    flows = {}
    for i, f in enumerate(desc["flows"]):
        arr = build.array(U, {"letters": f["letters"], "mode": f.get("mode", "coded"), "tag": "xyzwpq"[i % 6], "vals": f.get("vals"), "mem": f.get("mem")})
        flows[f["name"]] = fd.Flow(dims=arr.dims, values=arr.values * (i + 1), name=f["name"], from_process=pl[f["src"]], to_process=pl[f["dst"]])
    stocks = {}
    for i, s in enumerate(desc["stocks"]):
        ds = build.dimset(U, s["letters"])
        mk = lambda tag, k: fd.StockArray(dims=ds, values=build.array_values(U, {"letters": s["letters"], "mode": "coded", "tag": tag}) * (k + 1) + 0.25 * i)
        stocks[s["name"]] = fd.SimpleFlowDrivenStock(dims=ds, name=s["name"], process=None if s["proc"] is None else pl[s["proc"]], stock=mk("x", 3 * i), inflow=mk("y", 3 * i + 1), outflow=mk("z", 3 * i + 2))
    return fd.MFASystem(dims=build.dimset(U), parameters={}, processes=procs, flows=flows, stocks=stocks)


def same_array(a, b, tol_ulp=0):
    a, b = np.asarray(a, float), np.asarray(b, float)
    if a.shape != b.shape:
        return False
    if tol_ulp == 0:
        return bool(np.array_equal(a, b))
    return bool(np.all(np.abs(a - b) <= tol_ulp * np.spacing(np.maximum(np.abs(a), np.abs(b)))))


def run_system(desc):
    from flodym.export import convert_to_dict, export_mfa_flows_to_csv, export_mfa_stocks_to_csv, export_mfa_to_pickle

    U = desc["universe"]
    mfa = build_system(desc)
    before = snap_system(mfa)
    fl, stx = desc["flows"], desc["stocks"]
    # ---- numpy dict ---------------------------------------------------------------------
    d = convert_to_dict(mfa)
    require(d["dimension_names"] == {x["letter"]: x["name"] for x in U["dims"]}, "dict-dimension-names", str(d["dimension_names"]))
    require({k: list(v) for k, v in d["dimension_items"].items()} == {x["name"]: list(x["items"]) for x in U["dims"]}, "dict-dimension-items", "")
    require(list(d["processes"]) == list(desc["procs"]), "dict-processes", str(d["processes"]))
    require(set(d["flows"]) == {f["name"] for f in fl} and set(d["stocks"]) == {s["name"] for s in stx}, "dict-missing-flow-or-stock", f"{sorted(d['flows'])} {sorted(d['stocks'])}")
    for f in fl:
        n = f["name"]
        require(same_array(d["flows"][n], mfa.flows[n].values), "dict-flow-values", n)
        require(tuple(d["flow_dimensions"][n]) == tuple(f["letters"]), "dict-flow-dimensions", f"{n}: {d['flow_dimensions'][n]}")
        require(tuple(d["flow_processes"][n]) == (desc["procs"][f["src"]], desc["procs"][f["dst"]]), "dict-flow-processes", f"{n}: {d['flow_processes'][n]}")
    for s in stx:
        n = s["name"]
        require(same_array(d["stocks"][n], mfa.stocks[n].stock.values), "dict-stock-values", n)
        require(tuple(d["stock_dimensions"][n]) == tuple(s["letters"]), "dict-stock-dimensions", n)
        if s["proc"] is None:
            require(n not in d["stock_processes"], "dict-stock-processes", f"{n} has no process but is listed")
        else:
            require(d["stock_processes"].get(n) == desc["procs"][s["proc"]], "dict-stock-processes", f"{n}: {d['stock_processes'].get(n)}")
    # ---- pandas dict: re-import ------------------------------------------------------
    dp = convert_to_dict(mfa, type="pandas")
    for f in fl:
        n = f["name"]
        back = fd.FlodymArray.from_df(dims=mfa.flows[n].dims, df=dp["flows"][n])
        require(same_array(back.values, mfa.flows[n].values), "pandas-form-reimport-differs", f"flow {n}")
    for s in stx:
        n = s["name"]
        back = fd.FlodymArray.from_df(dims=mfa.stocks[n].stock.dims, df=dp["stocks"][n])
        require(same_array(back.values, mfa.stocks[n].stock.values), "pandas-form-reimport-differs", f"stock {n}")
    require(tuple(dp["flow_dimensions"].get(f["name"])) == tuple(f["letters"]) if fl else True, "dict-flow-dimensions", "pandas form")
    ulp = 0  # files are read back with float_precision="round_trip", so the text round trip is exact
    with tempfile.TemporaryDirectory(prefix="verif_c19_") as tmp:
        # ---- pickle --------------------------------------------------------------------
        pp = os.path.join(tmp, "mfa.pickle")
        export_mfa_to_pickle(mfa, pp)
        with open(pp, "rb") as fh:
            dk = pickle.load(fh)
        require(set(dk) == set(d), "pickle-keys", str(set(dk) ^ set(d)))
        for k in d:
            if k in ("flows", "stocks"):
                require(set(dk[k]) == set(d[k]) and all(same_array(dk[k][n], d[k][n]) for n in d[k]), "pickle-differs", k)
            else:
                require(dk[k] == d[k], "pickle-differs", k)
        # ---- CSV: flows ----------------------------------------------------------------
        fdir = os.path.join(tmp, "flows", "nested")
        export_mfa_flows_to_csv(mfa, fdir)
        files = sorted(os.listdir(fdir)) if os.path.isdir(fdir) else []
        require(len(files) == len(fl), "csv-flow-file-count", f"{len(files)} files for {len(fl)} flows: {files}")
        match_files(fdir, files, {f["name"]: mfa.flows[f["name"]] for f in fl}, "flow", ulp)
        # ---- CSV: stocks ---------------------------------------------------------------
        for wio in (False, True):
            sdir = os.path.join(tmp, f"stocks_{wio}")
            export_mfa_stocks_to_csv(mfa, sdir, with_in_and_out=wio)
            files = sorted(os.listdir(sdir)) if os.path.isdir(sdir) else []
            arrays = {}
            for s in stx:
                so = mfa.stocks[s["name"]]
                arrays[(s["name"], "stock")] = so.stock
                if wio:
                    arrays[(s["name"], "inflow")] = so.inflow
                    arrays[(s["name"], "outflow")] = so.outflow
            require(len(files) == len(arrays), "csv-stock-file-count", f"with_in_and_out={wio}: {len(files)} files for {len(arrays)} quantities")
            match_files(sdir, files, arrays, "stock", 0)
    require(snap_system(mfa) == before, "export-altered-system", "")
    if desc.get("again"):
        # scenario loop: the same system is exported, changed in place and exported again INTO THE SAME directory -
        # afterwards the exports hold the current values, one file per flow / stock quantity
        with tempfile.TemporaryDirectory(prefix="verif_c19_") as tmp2:
            fdir2, sdir2 = os.path.join(tmp2, "flows"), os.path.join(tmp2, "stocks")
            export_mfa_flows_to_csv(mfa, fdir2)
            export_mfa_stocks_to_csv(mfa, sdir2, with_in_and_out=False)
            for i, f in enumerate(fl):
                mfa.flows[f["name"]].values[...] = mfa.flows[f["name"]].values * (i + 2) + 1.0
            for i, s_ in enumerate(stx):
                mfa.stocks[s_["name"]].stock.values[...] = mfa.stocks[s_["name"]].stock.values * 0.5 - i
            d2 = convert_to_dict(mfa)
            dp2 = convert_to_dict(mfa, type="pandas")
            for f in fl:
                n = f["name"]
                require(same_array(d2["flows"][n], mfa.flows[n].values), "re-export-stale-values", f"flow {n} (numpy form)")
                back = fd.FlodymArray.from_df(dims=mfa.flows[n].dims, df=dp2["flows"][n])
                require(same_array(back.values, mfa.flows[n].values), "re-export-stale-values", f"flow {n} (pandas form)")
            for s_ in stx:
                n = s_["name"]
                require(same_array(d2["stocks"][n], mfa.stocks[n].stock.values), "re-export-stale-values", f"stock {n} (numpy form)")
            export_mfa_flows_to_csv(mfa, fdir2)
            export_mfa_stocks_to_csv(mfa, sdir2, with_in_and_out=False)
            files = sorted(os.listdir(fdir2)) if os.path.isdir(fdir2) else []
            require(len(files) == len(fl), "re-export-csv-file-count", f"{len(files)} files for {len(fl)} flows after exporting twice into one directory: {files[:6]}")
            match_files(fdir2, files, {f["name"]: mfa.flows[f["name"]] for f in fl}, "flow", 0)
            files = sorted(os.listdir(sdir2)) if os.path.isdir(sdir2) else []
            require(len(files) == len(stx), "re-export-csv-file-count", f"{len(files)} files for {len(stx)} stocks after exporting twice into one directory")
            match_files(sdir2, files, {(s_["name"], "stock"): mfa.stocks[s_["name"]].stock for s_ in stx}, "stock", 0)
    dimsets = {tuple(sorted(f["letters"])) for f in fl}
    funky = any(conservative_key(f["name"]) != f["name"] for f in fl)
    return {"nontrivial": len({len(x) for x in dimsets}) >= 2 or funky, "classes": [f"flows:{min(len(fl), 4)}", f"stocks:{len(stx)}"] + (["names-need-sanitising"] if funky else [])}


def text_dims(dims):
    """CSV is text: a dimension that mixes label types (untyped, e.g. ['a0', 101]) comes back with all labels as
    text, so such a dimension is read back through its str()-ed twin; all others are read back as they are."""
    out = []
    for d in dims:
        if d.dtype is None and len({type(i) for i in d.items}) > 1:
            out.append(fd.Dimension(letter=d.letter, name=d.name, items=[str(i) for i in d.items], dtype=str))
        else:
            out.append(d)
    return fd.DimensionSet(dim_list=out)


def match_files(directory, files, arrays, what, ulp):
    """Every file must be re-importable into exactly one of the arrays, and every array must be hit."""
    hit = {}
    for fn in files:
        df = pd.read_csv(os.path.join(directory, fn), float_precision="round_trip")
        cands = []
        for key, arr in arrays.items():
            try:
                back = fd.FlodymArray.from_df(dims=text_dims(arr.dims), df=df)
            except Exception:
                continue
            if same_array(back.values, arr.values, ulp):
                cands.append(key)
        require(len(cands) >= 1, f"csv-{what}-file-matches-no-array", f"{fn}")
        for c in cands:
            hit.setdefault(c, []).append(fn)
    for key in arrays:
        require(key in hit, f"csv-{what}-not-exported", f"{key}: no file holds its values ({files})")


@st.composite
def system_cases(draw):
    U = draw(gen.universes(min_dims=2, max_dims=4, max_len=3, with_time=True, kinds=("str", "int", "ustr", "uint", "umixed")))
    U["dims"][0]["items"] = [2000 + i for i in range(max(2, len(U["dims"][0]["items"])))]
    U["dims"][0]["dtype"] = "int"
    allL = gen.uletters(U)
    nproc = draw(st.integers(1, 4))
    procs = ["sysenv"] + [f"P{i}" for i in range(1, nproc)]
    used = set()
    flows = []
    for i in range(draw(st.integers(0, 5))):
        name = draw(st.sampled_from(NAME_PARTS)) + draw(st.sampled_from(["", " 2", " => sysenv", "_b"]))
        if draw(st.integers(0, 4)) == 0:
            # verbose names: longer than 100 / 128 characters, differing only near the end
            name = "production of semi finished goods in the region of interest including all downstream users " * draw(st.sampled_from([1, 2])) + "=> " + name + f" ({i})"
        if conservative_key(name) in used or not conservative_key(name):
            name = f"{name} #{i}x{i}"
        if conservative_key(name) in used:
            continue
        used.add(conservative_key(name))
        f = {"name": name, "src": draw(st.integers(0, nproc - 1)), "dst": draw(st.integers(0, nproc - 1)), "letters": draw(gen.ordered_subtuple(allL, min_size=1))}
        if draw(st.integers(0, 3)) == 0:
            n = gen._size(U, f["letters"])
            f["mode"] = "float"
            f["vals"] = draw(st.lists(st.floats(-1e6, 1e6, allow_nan=False), min_size=n, max_size=n))
        if len(f["letters"]) >= 2:
            f["mem"] = draw(st.sampled_from(["C", "C", "F", "T"]))
        flows.append(f)
    stocks = []
    used_s = set()
    for i in range(draw(st.integers(0, 3))):
        name = draw(st.sampled_from(["in use", "Landfill (old)", "stock", "S-1"])) + f" {i}"
        if draw(st.integers(0, 4)) == 0:
            name = "in use stock of all products that were put on the market in the region during the whole modelling period " + name
        if flows and draw(st.integers(0, 3)) == 0:
            # flows and stocks are separate namespaces (and separate files: <name>.csv / <name>_stock.csv):
            # a stock may carry the name of a flow, e.g. both called after the process 'use'
            name = flows[draw(st.integers(0, len(flows) - 1))]["name"]
        k_ = conservative_key(name)
        if k_ in used_s or any(k_ + sfx in used for sfx in ("stock", "inflow", "outflow")):
            continue
        used_s.add(k_)
        stocks.append({"name": name, "proc": draw(st.sampled_from([None] + list(range(nproc)))), "letters": ["t"] + draw(gen.ordered_subtuple(allL[1:]))})
    return {"universe": U, "procs": procs, "flows": flows, "stocks": stocks, "again": draw(st.integers(0, 2)) == 0}


class System(Facet):
    name = "system"
    examples = {"quick": 800, "thorough": 16000}
    shards = {"quick": 16, "thorough": 16}

    def strategy(self, tier):
        return system_cases()

    def run(self, desc):
        return run_system(desc)


@st.composite
def sequence_cases(draw):
    first = draw(system_cases())
    import copy

    second = copy.deepcopy(first)
    for d in second["universe"]["dims"]:
        k = draw(st.integers(0, 3))
        if k == 1 and len(d["items"]) > 1:
            d["items"] = list(reversed(d["items"]))
        elif k == 2:
            d["items"] = [(f"other {i}" if isinstance(it, str) else it + 7) for i, it in enumerate(d["items"])]
    return {"first": first, "second": second}


class Sequence(Facet):
    """Two systems with the same dimension letters and shapes but other items (or the same items in
    another order), exported one after the other in the same process - as in a scenario loop."""

    name = "sequence"
    examples = {"quick": 300, "thorough": 6000}
    shards = {"quick": 16, "thorough": 16}

    def strategy(self, tier):
        return sequence_cases()

    def run(self, desc):
        a = run_system(desc["first"])
        b = run_system(desc["second"])
        return {"nontrivial": True, "classes": ["two-systems"] + [c for c in b["classes"] if c.startswith("flows")]}


def run_definition(desc):
    definition = c18.make_definition(desc)
    dump = definition.model_dump()
    dfs = definition.to_dfs()
    nonempty = [k for k, v in dump.items() if v]
    require(sorted(dfs) == sorted(nonempty), "to_dfs-kinds", f"{sorted(dfs)} vs non-empty kinds {sorted(nonempty)}")
    for kind in nonempty:
        df = dfs[kind]
        rows = dump[kind]
        require(len(df) == len(rows), "to_dfs-row-count", f"{kind}: {len(df)} rows for {len(rows)} definitions")
        for i, row in enumerate(rows):
            rec = df.iloc[i]
            if isinstance(row, str):
                require(rec["name"] == row, "to_dfs-cell", f"{kind}[{i}].name: {rec['name']!r} vs {row!r}")
                continue
            require(set(df.columns) == set(row), "to_dfs-columns", f"{kind}: {sorted(df.columns)} vs {sorted(row)}")
            for k, v in row.items():
                g = rec[k]
                ok = (g == v) if not (v is None) else (g is None or (isinstance(g, float) and g != g))
                require(bool(ok), "to_dfs-cell", f"{kind}[{i}].{k}: {g!r} vs {v!r}")
    return {"nontrivial": len(nonempty) >= 4, "classes": [f"kinds:{len(nonempty)}"]}


class Definition(Facet):
    name = "definition"
    examples = {"quick": 1500, "thorough": 60000}
    shards = {"quick": 8, "thorough": 16}

    def strategy(self, tier):
        return c18.definition_cases()

    def run(self, desc):
        return run_definition(desc)


Prop(
    "C19",
    "exploration",
    "system: generated systems (1-4 processes, 0-5 flows with >= 1 dim over ordered dim subsets incl. non-C memory layouts, names "
    "with spaces, arrows, brackets, ampersands, percent signs that stay distinct after sanitising, 0-3 stocks with/without process, "
    "label-coded or arbitrary float values): convert_to_dict numpy form compared key by key (values bit-equal, letters, names, items, "
    "process list, endpoints, stock processes); pandas form and CSV files re-imported with from_df into identical arrays (CSV text read "
    "back with the round-trip float parser, so exact); pickle equals the numpy dict; file counts = #flows resp. #stocks x (1|3) with files matched to "
    "arrays by content; system snapshot unchanged. definition: to_dfs has one table per non-empty kind, one row per definition, cells "
    "= model_dump(). sequence: two systems with the same letters and shapes but permuted or different items exported one after the "
    "other in one process (scenario loop), each checked as above. Non-trivial = flows of different dimensionality or names needing sanitising.",
    [System(), Sequence(), Definition()],
    assumptions=["names stay distinct after removing everything but [a-z0-9] (implies distinct sanitised file names)", "flows have >= 1 dimension"],
)
