"""C04 - results do not depend on the storage order of dimensions (metamorphic).

For each generated operation the same labelled data is laid out twice: in a base storage order
and with the dimensions of every participating array (operands, pre-declared target, lifetime
parameter) permuted.  The two results, read back by label, must agree; the result's own
dimension order must follow the documented rule.  No reference model is involved.
"""
from __future__ import annotations

import itertools

import numpy as np
from hypothesis import strategies as st

from props.c06_index import SUBLETTER, make_key, region, selectors
from vlib import build, dfutil, gen, model
from vlib.build import fd
from vlib.model import MArr
from vlib.runner import Discard, Facet, Prop, Violation, require

BIN = ["+", "-", "*", "/", "min", "max", "**"]


def m_union(x, y):
    return list(x) + [l for l in y if l not in x]


def m_inter(x, y):
    return [l for l in x if l in y]


def apply_op(U, op, letters):
    """Run ``op`` with arrays stored in the orders given by ``letters`` (role -> list).
    Returns (observation, order_rule_violation or None).  Observation: MArr, dict of MArr,
    or a plain dict (data frame cells by label)."""
    k = op["kind"]
    def arr(role, universe=None, tag=None):
        # the labelled data is fixed by the base descriptor; only the storage order varies
        uu = universe or U
        ad = dict(op["arrays"][role])
        if tag:
            ad["tag"] = tag
        fn = build.value_fn(uu, ad)
        vals = build.ndarray_from_fn(letters[role], build.uitems(uu), fn, float)
        if letters[role] != list(op["arrays"][role]["letters"]) or ad.get("mem"):
            # the permuted copy also gets another memory layout than freshly built C order
            vals = build.with_memory_layout(vals, ad.get("mem") or ("F" if len(letters[role]) % 2 else "T"))
        return fd.FlodymArray(dims=build.dimset(uu, letters[role]), values=vals)

    def after(*srcs):
        # the caller goes on working with the source: it is updated in place after the result was taken; whether
        # the result follows or not, it must do the same for every storage order of the source
        how = op.get("touch_src")
        for a in srcs if how else ():
            if how == "values":
                a.values[...] = a.values * 3.0 + 1.0
            else:
                a[...] = a * 3.0 + 1.0

    if k == "bin":
        x, y = arr("x"), arr("y")
        o = op["op"]
        from props.c01_arith import apply_flodym

        res = apply_flodym(o, x, y)
        after(x, y)
        exp_order = m_inter(letters["x"], letters["y"]) if o in ("+", "-", "min", "max") else (m_union(letters["x"], letters["y"]) if o in "*/" else letters["x"])
        rule = None if list(res.dims.letters) == list(exp_order) else f"result order {res.dims.letters}, rule says {exp_order}"
        return MArr.from_flodym(res), rule
    if k == "unary":
        x = arr("x")
        res = {"neg": lambda: -x, "abs": lambda: abs(x), "sign": lambda: x.sign()}[op["op"]]()
        after(x)
        rule = None if list(res.dims.letters) == list(letters["x"]) else "unary result order"
        return MArr.from_flodym(res), rule
    if k == "setall":
        t, y = arr("t"), arr("y")
        t[...] = y
        rule = None if list(t.dims.letters) == list(letters["t"]) else "target order changed"
        return MArr.from_flodym(t), rule
    if k == "setslice":
        t = arr("t")
        key = make_key(U, op["sel"], op["syntax"])
        if "y" in op["arrays"]:
            from props.c05_assign import rhs_universe

            RU = rhs_universe(U, op["sel"])
            t[key] = arr("y", RU)
        else:
            t[key] = op["num"]
        rule = None if list(t.dims.letters) == list(letters["t"]) else "target order changed"
        return MArr.from_flodym(t), rule
    if k == "chain":
        # slice once, re-order all dims through sum_to / cast_to, then slice the re-ordered array:
        # the second result must not depend on how the FIRST array stored its dims
        x = arr("x")
        _ = x[make_key(U, op["sel0"], "dict_letter")]
        r = x.sum_to(tuple(op["dims"])) if op["via"] == "sum_to" else x.cast_to(x.dims.get_subset(tuple(op["dims"])))
        res = r[make_key(U, op["sel"], op["syntax"])]
        rl, _, _ = region(U, op["dims"], op["sel"])
        rule = None if list(res.dims.letters) == list(rl) else f"chain order {res.dims.letters} vs {rl}"
        return MArr.from_flodym(res), rule
    if k == "getslice":
        x = arr("x")
        res = x[make_key(U, op["sel"], op["syntax"])]
        after(x)
        rl, _, _ = region(U, letters["x"], op["sel"])
        rule = None if list(res.dims.letters) == list(rl) else f"slice order {res.dims.letters} vs {rl}"
        return MArr.from_flodym(res), rule
    if k in ("sum_to", "sum_over", "cumsum", "shares", "cast_to"):
        x = arr("x")
        d = op["dims"]
        dn = tuple(build.udim(U, l)["name"] for l in d) if op.get("by_name") else tuple(d)  # dims named by name or by letter
        if k == "sum_to":
            res, exp = x.sum_to(dn), list(d)
        elif k == "sum_over":
            res, exp = x.sum_over(dn), [l for l in letters["x"] if l not in d]
        elif k == "cumsum":
            res, exp = x.cumsum(d[0]), list(letters["x"])
        elif k == "shares":
            res, exp = x.get_shares_over(tuple(d)), list(letters["x"])
        else:
            res, exp = x.cast_to(build.dimset(U, d)), list(d)
        after(x)
        rule = None if list(res.dims.letters) == exp else f"{k} order {res.dims.letters} vs {exp}"
        return MArr.from_flodym(res), rule
    if k == "to_df":
        x = arr("x")
        names = [build.udim(U, l)["name"] for l in sorted(letters["x"])]
        dtc = op.get("dim_to_columns")
        df = x.to_df(index=op["index"], dim_to_columns=dtc, sparse=op["sparse"])
        wide_name = wide_items = None
        if dtc is not None:
            wl = dtc if len(dtc) == 1 else [d["letter"] for d in U["dims"] if d["name"] == dtc][0]
            wide_name, wide_items = build.udim(U, wl)["name"], build.udim(U, wl)["items"]
        recs = dfutil.df_records(df, names, wide_name, wide_items)
        m, dup = dfutil.records_to_map(recs, names)
        if dup:
            raise Violation("to_df-duplicate-rows", str(dup[:2]))
        if op["sparse"]:
            m = {k_: v for k_, v in m.items() if v == v and v != 0}
        return m, None
    if k == "from_df":
        # one fixed frame (exported from the base order), imported into differently ordered dims
        base = build.array(U, op["arrays"]["x"])
        df = base.to_df(index=op["index"], dim_to_columns=op.get("dim_to_columns"))
        if op.get("shuffle"):
            df = df.iloc[::-1]
        res = fd.FlodymArray.from_df(dims=build.dimset(U, letters["x"]), df=df)
        rule = None if list(res.dims.letters) == list(letters["x"]) else "from_df order"
        return MArr.from_flodym(res), rule
    if k == "split":
        x = arr("x")
        parts = x.split(op["dims"][0])
        after(x)
        return {str(it): MArr.from_flodym(p) for it, p in parts.items()}, None
    if k == "stack":
        from flodym.flodym_array_helper import flodym_array_stack

        newd = fd.Dimension(letter="S", name="Stacked", items=["s0", "s1"])
        a0 = arr("x")
        a1 = arr("x2") if "x2" in op["arrays"] else arr("x", tag="y")  # the parts may be stored in different orders
        res = flodym_array_stack([a0, a1], newd)
        after(a0, a1)
        rule = None if list(res.dims.letters) == list(letters["x"]) + ["S"] else "stack order"
        return MArr.from_flodym(res), rule
    if k == "lifetime":
        from flodym import lifetime_models as lm

        dims = build.dimset(U, op["model_dims"])
        cls = getattr(lm, op["cls"])
        prm = {}
        for name, role in op["prms"].items():
            prm[name] = arr(role)
        if op.get("via") == "set_prms":
            mdl = cls(dims=dims, time_letter="t")
            mdl.set_prms(**prm)
        else:
            mdl = cls(dims=dims, time_letter="t", **prm)
        if op.get("touch"):
            # the caller goes on using (and updating) its own parameter array after handing it over,
            # before the tables are first evaluated; what the model then computes is either the old or
            # the new values by design - but the same choice for every storage order
            first = prm[next(iter(op["prms"]))]
            if op["touch"] == "values":
                first.values[...] = first.values * 1.5
            else:
                first[...] = first * 1.5
        return np.array(mdl.sf), None
    raise ValueError(k)


def same_obs(a, b, eq):
    if isinstance(a, MArr):
        return model.diff(a, b, eq, check_order=False)
    if isinstance(a, np.ndarray):
        return None if np.array_equal(a, b) else "survival tables differ"
    if isinstance(a, dict) and a and isinstance(next(iter(a.values())), MArr):
        if set(a) != set(b):
            return "keys differ"
        for k_ in a:
            d = model.diff(a[k_], b[k_], eq, check_order=False)
            if d:
                return f"{k_}: {d}"
        return None
    if set(a) != set(b):
        return f"label sets differ: {sorted(set(a) ^ set(b), key=str)[:3]}"
    for k_ in a:
        if not eq(a[k_], b[k_]):
            return f"cell {k_}: {a[k_]} vs {b[k_]}"
    return None


def run_case(desc):
    U, op = desc["universe"], desc["op"]
    base = {r: list(a["letters"]) for r, a in op["arrays"].items()}
    perm = {r: list(desc["perms"].get(r, base[r])) for r in base}
    for r in base:
        assert sorted(base[r]) == sorted(perm[r])
    feq = model.make_eq_float(1e-9)
    eq = lambda a, b: feq(a, b)
    try:
        ob, rule_b = apply_op(U, op, base)
    except ZeroDivisionError:
        raise Discard("zero division")
    op_, rule_p = apply_op(U, op, perm)
    kname = op["kind"] + (":" + op["op"] if "op" in op else "")
    require(rule_b is None, f"order-rule-{op['kind']}", f"base: {rule_b}")
    require(rule_p is None, f"order-rule-{op['kind']}", f"permuted: {rule_p}")
    d = same_obs(ob, op_, eq)
    require(d is None, f"order-dependent-{op['kind']}", f"{kname}: {d}; base {base} permuted {perm}")
    moved = [r for r in base if base[r] != perm[r]]
    eqlen = any(gen.has_equal_lengths(U, base[r]) for r in moved)
    classes = [f"op:{kname}"] + (["equal-lengths-permuted"] if eqlen else []) + (["permuted"] if moved else ["identity"])
    return {"nontrivial": bool(moved) and eqlen, "classes": classes}


@st.composite
def cases(draw, max_dims=4, max_len=3):
    kind = draw(st.sampled_from(["bin", "bin", "unary", "setall", "setslice", "setslice", "getslice", "getslice", "chain", "sum_to", "sum_over", "cumsum", "shares", "cast_to", "to_df", "from_df", "split", "stack", "lifetime"]))
    if kind == "lifetime":
        U = draw(gen.universes(min_dims=2, max_dims=max_dims, max_len=max_len, min_len=3, with_time=True, kinds=("int",)))
        # time items: strictly increasing ints
        U["dims"][0]["items"] = [2000 + 2 * i for i in range(len(U["dims"][0]["items"]))]
        U["dims"][0]["dtype"] = "int"
    else:
        U = draw(gen.universes(min_dims=draw(st.sampled_from([2, 2, 3])), max_dims=max_dims, max_len=max_len))
        if kind != "from_df" and draw(st.integers(0, 5)) == 0:
            # two dimensions over the very same items (years and vintages, origin and destination regions): they are
            # told apart by letter / name only (all keys in this facet name the dimension)
            i_, j_ = draw(st.permutations(range(len(U["dims"]))))[:2]
            U["dims"][j_]["items"] = list(U["dims"][i_]["items"])
            U["dims"][j_]["dtype"] = U["dims"][i_]["dtype"]
    allL = gen.uletters(U)
    op = {"kind": kind, "arrays": {}}
    A = op["arrays"]

    def new(role, letters=None, min_dims=1, mode="coded", tag=None, elems=None):
        A[role] = draw(gen.arrays(U, letters=letters, modes=(mode,), tag=tag or {"t": "x"}.get(role, role), min_dims=min_dims, elems=elems))
        return A[role]["letters"]

    if kind == "bin":
        op["op"] = draw(st.sampled_from(BIN))
        xl = new("x", min_dims=1)
        if op["op"] == "**":
            new("y", letters=draw(gen.ordered_subtuple(xl)), mode="float", elems=st.sampled_from([0.0, 1.0, 2.0, 3.0]))
        else:
            new("y", min_dims=0)
    elif kind == "unary":
        op["op"] = draw(st.sampled_from(["neg", "abs", "sign"]))
        new("x", min_dims=2)
    elif kind == "setall":
        tl = new("t", min_dims=1)
        extra = draw(gen.ordered_subtuple([l for l in allL if l not in tl], max_size=2))
        new("y", letters=list(draw(st.permutations(tl + extra))))
    elif kind == "setslice":
        tl = new("t", min_dims=2)
        rhs_arr = draw(st.booleans())
        op["sel"] = draw(selectors(U, tl, allow_list=not rhs_arr))
        op["syntax"] = draw(st.sampled_from(["dict_letter", "dict_name"]))
        if rhs_arr:
            rl, _, orig = region(U, tl, op["sel"])
            extra = draw(gen.ordered_subtuple([l for l in allL if l not in [orig[r] for r in rl]], max_size=1))
            A["y"] = {"letters": list(draw(st.permutations(rl + extra))), "mode": "coded", "tag": "y"}
        else:
            op["num"] = 4.5
    elif kind == "chain":
        xl = new("x", min_dims=2)
        op["sel0"] = draw(selectors(U, xl, allow_list=False, force_nonempty=True))
        if not op["sel0"]:
            l0 = xl[0]
            op["sel0"] = {l0: {"kind": "single", "items": [build.udim(U, l0)["items"][0]]}}
        op["dims"] = list(draw(st.permutations(xl)))
        op["via"] = draw(st.sampled_from(["sum_to", "cast_to"]))
        op["sel"] = draw(selectors(U, xl, allow_list=False))
        op["syntax"] = draw(st.sampled_from(["dict_letter", "dict_name"]))
    elif kind == "getslice":
        xl = new("x", min_dims=2)
        op["sel"] = draw(selectors(U, xl, allow_list=False))
        op["syntax"] = draw(st.sampled_from(["dict_letter", "dict_name", "dict_mixed"]))
    elif kind in ("sum_to", "sum_over", "shares", "cumsum", "split"):
        xl = new("x", min_dims=2)
        if kind in ("cumsum", "split"):
            op["dims"] = [xl[draw(st.integers(0, len(xl) - 1))]]
        else:
            op["dims"] = draw(gen.ordered_subtuple(xl, min_size=1 if kind == "shares" else 0))
            if kind in ("sum_to", "sum_over"):
                op["by_name"] = draw(st.booleans())
    elif kind == "cast_to":
        xl = new("x", min_dims=1)
        extra = draw(gen.ordered_subtuple([l for l in allL if l not in xl]))
        op["dims"] = list(draw(st.permutations(xl + extra)))
    elif kind in ("to_df", "from_df"):
        elems = st.sampled_from([0.0, 0.0, 1.5, -2.0, 3.0]) if kind == "to_df" else None
        xl = new("x", min_dims=2, mode="float" if kind == "to_df" else "coded", elems=elems)
        op["index"] = draw(st.booleans())
        op["sparse"] = draw(st.booleans()) if kind == "to_df" else False
        dtc = draw(st.sampled_from([None] + xl))
        if dtc is not None and draw(st.booleans()):
            dtc = build.udim(U, dtc)["name"]
        if op["sparse"]:
            dtc = None
        if kind == "from_df" and dtc is not None:
            dl = dtc if len(dtc) == 1 else [d["letter"] for d in U["dims"] if d["name"] == dtc][0]
            if build.udim(U, dl).get("dtype") is None and isinstance(build.udim(U, dl)["items"][0], int):
                dtc = None  # separate C11 matter (untyped int column labels)
        op["dim_to_columns"] = dtc
        op["shuffle"] = draw(st.booleans())
    elif kind == "stack":
        new("x", min_dims=1)
        A["x2"] = dict(A["x"], tag="y")
    else:  # lifetime
        op["model_dims"] = allL
        op["cls"] = draw(st.sampled_from(["NormalLifetime", "FoldedNormalLifetime", "LogNormalLifetime", "WeibullLifetime", "FixedLifetime"]))
        names = {"WeibullLifetime": ["weibull_shape", "weibull_scale"], "FixedLifetime": ["mean"]}.get(op["cls"], ["mean", "std"])
        op["prms"] = {}
        for i, n in enumerate(names):
            role = "pq"[i]
            pl = draw(gen.ordered_subtuple(allL, min_size=2 if i == 0 else 0))
            n_el = 1
            A[role] = draw(gen.arrays(U, letters=pl, modes=("float",), tag=role, elems=st.floats(0.7, 6.0)))
            op["prms"][n] = role
        op["via"] = draw(st.sampled_from(["ctor", "ctor", "set_prms"]))
        op["touch"] = draw(st.sampled_from([None, None, "values", "setitem"]))
    if kind in ("bin", "unary", "getslice", "sum_to", "sum_over", "cumsum", "shares", "cast_to", "split", "stack"):
        op["touch_src"] = draw(st.sampled_from([None, None, None, "values", "setitem"]))
    perms = {}
    for role, a in A.items():
        if len(a["letters"]) > 1:
            perms[role] = list(draw(st.permutations(a["letters"])))
    return {"universe": U, "op": op, "perms": perms}


class Sampled(Facet):
    name = "sampled"
    examples = {"quick": 24000, "thorough": 600000}
    shards = {"quick": 16, "thorough": 16}

    def strategy(self, tier):
        return cases(max_dims=4, max_len=3)

    def run(self, desc):
        return run_case(desc)


class AllPerms(Facet):
    """All permutations of every participating array for a set of operation templates over an
    all-equal-lengths universe (where a silent transposition keeps the shape)."""

    name = "allperms"
    exhaustive = True
    shards = {"quick": 16, "thorough": 16}

    def enumerate(self, tier):
        if tier == "quick":
            yield from self._enum(3, [2], None)
            # slicing depends on where the sliced axes sit: all 24 storage orders of a 4-dim array for the slice templates
            yield from self._enum(4, [2], ("getslice", "setslice"))
        else:
            yield from self._enum(4, [2, 3], None)

    def _enum(self, nd, lens, only_kinds):
        letters = list("abcd"[:nd])
        for L in lens:
            U = {"dims": [{"letter": l, "name": gen.NAMES[l], "items": gen.items_for(l, k, L, "str"), "dtype": "str"} for k, l in enumerate(letters)]}
            X = {"letters": letters, "mode": "coded", "tag": "x"}
            Y3 = {"letters": letters[:-1], "mode": "coded", "tag": "y"}
            Y = {"letters": letters, "mode": "coded", "tag": "y"}
            sub = lambda l: {"kind": "subset", "items": list(reversed(build.udim(U, l)["items"]))}
            one = lambda l: {"kind": "single", "items": [build.udim(U, l)["items"][-1]]}
            templates = [
                {"kind": "bin", "op": "+", "arrays": {"x": X, "y": Y3}},
                {"kind": "bin", "op": "*", "arrays": {"x": X, "y": Y3}},
                {"kind": "bin", "op": "-", "arrays": {"x": Y3, "y": X}},
                {"kind": "setall", "arrays": {"t": Y3, "y": Y}},
                {"kind": "setslice", "sel": {letters[0]: one(letters[0]), letters[-1]: sub(letters[-1])}, "syntax": "dict_letter", "arrays": {"t": X}, "num": 2.5},
                {"kind": "getslice", "sel": {letters[0]: one(letters[0]), letters[-1]: sub(letters[-1])}, "syntax": "dict_letter", "arrays": {"x": X}},
                {"kind": "getslice", "sel": {letters[1]: sub(letters[1])}, "syntax": "dict_name", "arrays": {"x": X}},
                {"kind": "sum_to", "dims": [letters[-1], letters[0]], "arrays": {"x": X}},
                {"kind": "cast_to", "dims": letters[::-1], "arrays": {"x": Y3}},
                {"kind": "shares", "dims": [letters[1]], "arrays": {"x": X}},
                {"kind": "cumsum", "dims": [letters[1]], "arrays": {"x": X}},
                {"kind": "to_df", "index": True, "sparse": False, "dim_to_columns": letters[1], "arrays": {"x": X}},
                {"kind": "from_df", "index": False, "dim_to_columns": None, "shuffle": True, "arrays": {"x": X}},
                {"kind": "from_df", "index": True, "dim_to_columns": letters[0], "shuffle": False, "arrays": {"x": X}},
                {"kind": "split", "dims": [letters[1]], "arrays": {"x": X}},
                {"kind": "stack", "arrays": {"x": Y3, "x2": dict(Y3, tag="y")}},
            ]
            extra = []
            if nd == 4:
                # (kept, list/subset, kept, single) and (single, kept, kept, subset)
                extra = [
                    {"kind": "getslice", "sel": {letters[1]: sub(letters[1]), letters[3]: one(letters[3])}, "syntax": "dict_letter", "arrays": {"x": X}},
                    {"kind": "setslice", "sel": {letters[1]: {"kind": "list", "items": list(reversed(build.udim(U, letters[1])["items"]))}, letters[3]: one(letters[3])}, "syntax": "dict_letter", "arrays": {"t": X}, "num": 2.5},
                    {"kind": "setslice", "sel": {letters[1]: sub(letters[1]), letters[3]: one(letters[3])}, "syntax": "dict_letter", "arrays": {"t": X, "y": {"letters": [letters[2], "B", letters[0]], "mode": "coded", "tag": "y"}}},
                ]
            for op in templates + extra:
                if only_kinds and op["kind"] not in only_kinds:
                    continue
                roles = list(op["arrays"])
                spaces = [list(itertools.permutations(op["arrays"][r]["letters"])) for r in roles]
                for combo in itertools.product(*spaces):
                    yield {"universe": U, "op": op, "perms": {r: list(p) for r, p in zip(roles, combo)}}

    def run(self, desc):
        return run_case(desc)


Prop(
    "C04",
    "exploration",
    "Generated operations (binary/unary arithmetic, whole-array and slice assignment, slice reads with every key form, "
    "sum_to/sum_over/cumsum/get_shares_over/cast_to, to_df in every layout, from_df, split, stack, lifetime-model "
    "parameters) run twice: base storage order and every participating array permuted (values transposed accordingly); "
    "results read by label must agree (exact for label-coded integers, 1e-9 relative for quotients) and the result's "
    "dimension order must follow the documented rule. allperms: all permutations of all participating arrays for 16 "
    "operation templates over an all-equal-lengths universe of 3 (thorough 4) dims. Non-trivial = a non-identity "
    "permutation of an array having >= 2 dims of equal length.",
    [Sampled(), AllPerms()],
    assumptions=["wide import over an untyped int dimension is left to C11"],
)
