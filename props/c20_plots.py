"""C20 - Sankey and line plots show the system's numbers under the right labels.

Facet ``sankey`` : generated systems / slice dicts / exclusion lists / colour-split settings; the multiset of
                   (source node label, target node label, value, link label) read from figure.data[0] must
                   equal the label-dict model's.
Facet ``plotly`` / ``pyplot`` : arrays of 1-3 dims with every assignment of dims to x / line / subplot roles by
                   name or letter, optional x_array over a subset of the dims in any order; the multiset of
                   (subplot index, x data, y data) of the drawn lines must equal the model's.
"""
from __future__ import annotations

import itertools
from collections import Counter

import numpy as np
from hypothesis import strategies as st

from vlib import build, gen
from vlib.build import fd
from vlib.model import MArr
from vlib.runner import Facet, Prop, Violation, require

COLORS = ["red", "blue", "green", "#123456", "rgba(1,2,3,0.5)", "hsl(230,20,70)", "orange", "black"]


PROC_POOL = ["use", "use phase", "waste", "waste treatment", "P1", "P10", "fab (new)", "a.b", "a+b", "recycling [EU]"]
FLOW_POOL = ["scrap", "scrap (old)", "scrap (old) to smelter", "F1", "F10", "x*", "x.y", "xay", "steel|iron", "steel", "ore \\ raw", "ore"]


def r9(v):
    return round(float(v), 9)


def run_sankey(desc):
    from flodym.export import PlotlySankeyPlotter

    U = desc["universe"]
    items = build.uitems(U)
    procs = fd.make_processes(list(desc["procs"]))
    pl = list(procs.values())
    flows, marrs = {}, {}
    for i, f in enumerate(desc["flows"]):
        ad = {"letters": f["letters"], "mode": "coded", "tag": "xyzwpq"[i % 6], "mem": f.get("mem")}
        arr = build.array(U, ad)
        m = build.marr(U, ad)
        # net flows (trade balances, stock changes) have entries of either sign: shift by the median entry if asked to
        shift = float(i) - (float(sorted(m.data.values())[len(m.data) // 2]) + 0.5 if f.get("signed") else 0.0)
        flows[f["name"]] = fd.Flow(dims=arr.dims, values=arr.values + shift, name=f["name"], from_process=pl[f["src"]], to_process=pl[f["dst"]])
        marrs[f["name"]] = m.map(lambda v, shift=shift: v + shift)
    mfa = fd.MFASystem(dims=build.dimset(U), parameters={}, processes=procs, flows=flows, stocks={})
    slice_dict = {}
    for l_, v_ in desc["slice"].items():
        if isinstance(v_, dict):
            # several items of a dimension: a Dimension holding the subset (the documented way to slice)
            d_ = build.udim(U, l_)
            slice_dict[l_] = fd.Dimension(letter=l_.upper(), name=d_["name"] + " part", items=list(v_["subset"]), dtype=build._DT[d_.get("dtype")])
        else:
            slice_dict[l_] = v_
    excl_p = list(desc["exclude_processes"])
    excl_f = list(desc["exclude_flows"])
    color_dict = {"default": desc["default_color"]}
    for f in desc["flows"]:
        c = f.get("color")
        if c is None:
            continue
        if isinstance(c, dict):
            d = build.udim(U, c["dim"])
            color_dict[f["name"]] = (d["name"] if c["by_name"] else c["dim"], [COLORS[k % len(COLORS)] for k in range(len(d["items"]) + c["extra"])])
        else:
            color_dict[f["name"]] = c
    kw = dict(mfa=mfa, slice_dict=slice_dict, flow_color_dict=color_dict, exclude_flows=excl_f)
    if desc["exclude_default"]:
        excl_p = ["sysenv"]
    else:
        kw["exclude_processes"] = excl_p
    plotter = PlotlySankeyPlotter(**kw)
    fig = plotter.plot()
    if desc.get("replot"):
        # scenario loop: the system is recomputed (values rewritten in place) and the SAME plotter plots again
        for i, f in enumerate(desc["flows"]):
            flows[f["name"]].values[...] = flows[f["name"]].values * (i + 2) + 1.0
            marrs[f["name"]] = marrs[f["name"]].map(lambda v, i=i: v * (i + 2) + 1.0)
        fig = plotter.plot()
    sk = fig.data[0]
    node_labels = list(sk.node.label)
    # ---- model -----------------------------------------------------------------------
    shown_p = [p for p in desc["procs"] if p not in excl_p]
    require(node_labels == shown_p, "sankey-nodes", f"node labels {node_labels} vs shown processes {shown_p}")
    exp = Counter()
    for f in desc["flows"]:
        n = f["name"]
        if n in excl_f or desc["procs"][f["src"]] in excl_p or desc["procs"][f["dst"]] in excl_p:
            continue
        m = marrs[n]
        sel = {l: (list(it["subset"]) if isinstance(it, dict) else [it]) for l, it in desc["slice"].items() if l in f["letters"]}
        keys = [k for k in m.keys() if all(dict(zip(m.letters, k))[l] in its_ for l, its_ in sel.items())]
        c = f.get("color")
        src, dst = desc["procs"][f["src"]], desc["procs"][f["dst"]]
        if isinstance(c, dict):
            for it in items[c["dim"]]:
                tot = sum(m.data[k] for k in keys if dict(zip(m.letters, k))[c["dim"]] == it)
                exp[(src, dst, r9(tot), str(it))] += 1
        else:
            exp[(src, dst, r9(sum(m.data[k] for k in keys)), n)] += 1
    got = Counter()
    src_i, dst_i, vals, labs = list(sk.link.source), list(sk.link.target), list(sk.link.value), list(sk.link.label)
    require(len(src_i) == len(dst_i) == len(vals) == len(labs), "sankey-link-lists", "")
    for s_, t_, v, lb in zip(src_i, dst_i, vals, labs):
        require(0 <= s_ < len(node_labels) and 0 <= t_ < len(node_labels), "sankey-link-to-missing-node", f"link {s_}->{t_} with {len(node_labels)} nodes")
        got[(node_labels[s_], node_labels[t_], r9(v), str(lb))] += 1
    if got != exp:
        miss = list((exp - got).items())[:3]
        extra = list((got - exp).items())[:3]
        raise Violation("sankey-links-differ", f"missing {miss} unexpected {extra}; slice {slice_dict} excluded processes {excl_p} flows {excl_f}")
    n_shown = sum(exp.values())
    split = any(isinstance(f.get("color"), dict) for f in desc["flows"])
    cl = [f"shown-links:{min(n_shown, 5)}"] + (["replotted-after-change"] if desc.get("replot") else []) + (["sliced"] if slice_dict else []) + (["split"] if split else []) + (["excluded-flows"] if excl_f else []) + (["negative-link-values"] if any(k[2] < 0 for k in exp) else [])
    return {"nontrivial": n_shown >= 2 and (bool(slice_dict) or split), "classes": cl}


@st.composite
def sankey_cases(draw):
    U = draw(gen.universes(min_dims=1, max_dims=3, max_len=3))
    allL = gen.uletters(U)
    nproc = draw(st.integers(2, 5))
    procs = ["sysenv"] + [f"proc {i}" for i in range(1, nproc)]
    naming = draw(st.sampled_from(["numbered", "arrow", "pool"]))
    if naming != "numbered":
        # real names: some are the beginning of others, some contain characters special to pattern languages
        procs = ["sysenv"] + list(draw(st.permutations(PROC_POOL)))[: nproc - 1]
    fpool = list(draw(st.permutations(FLOW_POOL)))
    flows = []
    taken = set()
    for i in range(draw(st.integers(1, 6))):
        f = {"name": f"flow {i}", "src": draw(st.integers(0, nproc - 1)), "dst": draw(st.integers(0, nproc - 1)), "letters": draw(gen.ordered_subtuple(allL))}
        if naming == "arrow":
            f["name"] = f"{procs[f['src']]} => {procs[f['dst']]}"
            if f["name"] in taken:
                f["name"] += f" #{i}"
        elif naming == "pool":
            f["name"] = fpool[i]
        taken.add(f["name"])
        if len(f["letters"]) >= 2:
            f["mem"] = draw(st.sampled_from(["C", "C", "F"]))
        f["signed"] = draw(st.integers(0, 3)) == 0
        flows.append(f)
    slice_dict = {}
    for l in allL:
        if draw(st.integers(0, 2)) == 0:
            its = build.udim(U, l)["items"]
            slice_dict[l] = its[draw(st.integers(0, len(its) - 1))]
            if len(its) >= 2 and draw(st.integers(0, 2)) == 0:
                slice_dict[l] = {"subset": draw(st.lists(st.sampled_from(its), min_size=2, max_size=len(its), unique=True))}
    for f in flows:
        k = draw(st.integers(0, 3))
        if k == 1:
            f["color"] = draw(st.sampled_from(COLORS))
        elif k == 2:
            cand = [l for l in f["letters"] if l not in slice_dict]
            if cand:
                f["color"] = {"dim": draw(st.sampled_from(cand)), "by_name": draw(st.booleans()), "extra": draw(st.integers(0, 2))}
    exclude_default = draw(st.booleans())
    excl_p = [] if exclude_default else draw(st.lists(st.sampled_from(procs), unique=True, max_size=2))
    excl_f = draw(st.lists(st.sampled_from([f["name"] for f in flows]), unique=True, max_size=2))
    return {"replot": draw(st.sampled_from([False, False, True])), "universe": U, "procs": procs, "flows": flows, "slice": slice_dict, "exclude_default": exclude_default, "exclude_processes": excl_p, "exclude_flows": excl_f, "default_color": draw(st.sampled_from(COLORS))}


class Sankey(Facet):
    name = "sankey"
    examples = {"quick": 3200, "thorough": 144000}
    shards = {"quick": 16, "thorough": 16}

    def strategy(self, tier):
        return sankey_cases()

    def run(self, desc):
        return run_sankey(desc)


# ---------------------------------------------------------------------- array plotters


def expected_lines(U, desc):
    xd = desc["x"]
    m = build.marr(U, xd)
    items = build.uitems(U)
    roles = desc["roles"]  # letter -> "x"|"line"|"subplot"
    xl = [l for l, r in roles.items() if r == "x"][0]
    ll = [l for l, r in roles.items() if r == "line"]
    sl = [l for l, r in roles.items() if r == "subplot"]
    xm = None
    if desc.get("x_array"):
        xm = build.marr(U, desc["x_array"])
    out = Counter()
    for si, sit in enumerate(items[sl[0]] if sl else [None]):
        for lit in items[ll[0]] if ll else [None]:
            lab = {}
            if sl:
                lab[sl[0]] = sit
            if ll:
                lab[ll[0]] = lit
            ys = tuple(r9(m.get(dict(lab, **{xl: xi}))) for xi in items[xl])
            if xm is None:
                xs = tuple(str(xi) for xi in items[xl])
            else:
                xs = tuple(str(r9(xm.get({k: v for k, v in dict(lab, **{xl: xi}).items() if k in xm.letters}))) for xi in items[xl])
            out[(si, xs, ys)] += 1
    return out


def norm_x(x):
    out = []
    for v in x:
        if isinstance(v, (float, np.floating)):
            out.append(str(r9(v)))
        elif isinstance(v, (int, np.integer)):
            out.append(str(int(v)))
        else:
            out.append(str(v))
    return tuple(out)


def run_plot(desc, which):
    from flodym.export import PlotlyArrayPlotter, PyplotArrayPlotter

    U = desc["universe"]
    x = build.array(U, desc["x"])
    x.name = "quantity"
    roles = desc["roles"]
    nm = lambda l: build.udim(U, l)["name"] if desc["by_name"].get(l) else l
    kw = {"array": x, "intra_line_dim": nm([l for l, r in roles.items() if r == "x"][0])}
    for l, r in roles.items():
        if r == "line":
            kw["linecolor_dim"] = nm(l)
        elif r == "subplot":
            kw["subplot_dim"] = nm(l)
    x_int = False
    if desc.get("x_array"):
        kw["x_array"] = build.array(U, desc["x_array"])
    exp = expected_lines(U, desc)
    if desc.get("x_array") is None:
        # items of the x dimension: plotted as they are
        exp = Counter({(si, tuple(str(v) for v in xs), ys): c for (si, xs, ys), c in exp.items()})
    got = Counter()
    second = desc.get("second")
    if second:
        # a second array with the same roles drawn into the existing figure: both sets of lines must be there
        d2 = dict(desc, x=dict(desc["x"], tag="z"), second=None)
        exp2 = expected_lines(U, d2)
        if desc.get("x_array") is None:
            exp2 = Counter({(si, tuple(str(v) for v in xs), ys): c for (si, xs, ys), c in exp2.items()})
        exp = exp + exp2
    ct = desc.get("chart_type", "line")
    if which == "plotly":
        fig = PlotlyArrayPlotter(chart_type=ct, **kw).plot()
        if second:
            kw2 = dict(kw, array=build.array(U, dict(desc["x"], tag="z")), fig=fig)
            fig = PlotlyArrayPlotter(chart_type=ct, **kw2).plot()
        for tr in fig.data:
            ax = tr.xaxis or "x"
            si = 0 if ax == "x" else int(ax[1:]) - 1
            got[(si, norm_x(tr.x), tuple(r9(v) for v in tr.y))] += 1
    else:
        import matplotlib

        matplotlib.use("Agg")
        from matplotlib import pyplot as plt

        fig = PyplotArrayPlotter(**kw).plot()
        if second:
            kw2 = dict(kw, array=build.array(U, dict(desc["x"], tag="z")), fig=fig)
            fig = PyplotArrayPlotter(**kw2).plot()
        try:
            for si, ax in enumerate(fig.axes):
                for line in ax.lines:
                    got[(si, norm_x(line.get_xdata(orig=True)), tuple(r9(v) for v in line.get_ydata(orig=True)))] += 1
        finally:
            plt.close(fig)
    if got != exp:
        miss = list((exp - got).items())[:2]
        extra = list((got - exp).items())[:2]
        raise Violation(f"{which}-lines-differ", f"missing {miss} unexpected {extra}; roles {roles} by_name {desc['by_name']} x_array {desc.get('x_array', {}).get('letters') if desc.get('x_array') else None} dims {desc['x']['letters']}")
    return {"nontrivial": len(roles) == 3, "classes": [f"ndim:{len(roles)}"] + (["second-array-into-existing-figure"] if second else []) + ([f"chart:{ct}"] if which == "plotly" else []) + (["x_array"] if desc.get("x_array") else []) + (["by-name"] if any(desc["by_name"].values()) else ["by-letter"])}


@st.composite
def plot_cases(draw):
    U = draw(gen.universes(min_dims=3, max_dims=3, max_len=3, min_len=1))
    n = draw(st.sampled_from([1, 2, 2, 3, 3, 3]))
    letters = list(draw(st.permutations(gen.uletters(U))))[:n]
    x = draw(gen.arrays(U, letters=letters, modes=("coded",)))
    role_names = {1: [["x"]], 2: [["x", "line"], ["x", "subplot"]], 3: [["x", "line", "subplot"]]}[n]
    rl = list(draw(st.permutations(draw(st.sampled_from(role_names)))))
    roles = dict(zip(letters, rl))
    desc = {"universe": U, "x": x, "roles": roles, "by_name": {l: draw(st.booleans()) for l in letters}}
    if draw(st.booleans()):
        xl = draw(gen.ordered_subtuple(letters, min_size=0))
        desc["x_array"] = {"letters": xl, "mode": "coded", "tag": "y"}
    desc["second"] = draw(st.sampled_from([False, False, True]))
    desc["chart_type"] = draw(st.sampled_from(["line", "line", "scatter", "area"]))
    return desc


class Plotly(Facet):
    name = "plotly"
    examples = {"quick": 2400, "thorough": 90000}
    shards = {"quick": 16, "thorough": 16}

    def strategy(self, tier):
        return plot_cases()

    def run(self, desc):
        return run_plot(desc, "plotly")


class Pyplot(Facet):
    name = "pyplot"
    examples = {"quick": 1200, "thorough": 45000}
    shards = {"quick": 16, "thorough": 16}

    def strategy(self, tier):
        return plot_cases()

    def run(self, desc):
        return run_plot(desc, "pyplot")


Prop(
    "C20",
    "exploration",
    "sankey: generated systems (2-5 processes, 1-6 flows over ordered dim subsets incl. parallel flows and self-loops), slice "
    "dicts over single items, exclusion lists of processes (default ['sysenv'], none, or up to two arbitrary ones) and flows, per-flow "
    "colour either a string or (dimension by name or letter, colour list at least as long as the dimension); from figure.data[0] the "
    "multiset of (node_label[source], node_label[target], value, label) must equal the model's (one link per shown flow with the "
    "flow's total after slicing, or one per item for split flows; nothing for excluded flows/processes), node labels = shown "
    "processes in order. plotly / pyplot: arrays of 1-3 dims with every assignment of dims to x / line / subplot roles by name or "
    "letter and an optional x_array over any ordered subset of the dims; the multiset of (subplot index via the trace's xaxis anchor "
    "resp. axes order, x data, y data) must equal the model's. Non-trivial = >= 2 shown links with a slice or a split / arrays with all "
    "three roles.",
    [Sankey(), Plotly(), Pyplot()],
    assumptions=[
        "<= 24 lines per figure (default plotly palette); slice dicts hold single items only; a flow is not split by a dimension that the slice dict removes",
        "titles, legends and colours are not inspected; values compared after rounding to 9 decimals",
    ],
)
