"""C18 - systems built from definitions and files match what was defined.

Facets
  definitions : generated MFADefinitions built through make_processes / make_empty_flows /
                make_empty_stocks and MFASystem.from_data_reader (in-memory reader); attribute by
                attribute comparison with the definition
  negative    : ill-formed definitions must be refused when the definition or the system is built
  dimfiles    : dimension files (CSV / Excel x one row / one column x with / without header x int / str
                items x sheet named / first sheet) give the items in file order with the declared type
  files       : from_csv / from_excel assemble dimensions and parameters from real files
"""
from __future__ import annotations

import os
import tempfile

import numpy as np
import pandas as pd
from hypothesis import strategies as st

from vlib import build, gen
from vlib.build import fd
from vlib.runner import Facet, Prop, Violation, require

STOCK_CLS = ["SimpleFlowDrivenStock", "InflowDrivenDSM", "StockDrivenDSM"]
LT_CLS = ["FixedLifetime", "NormalLifetime", "FoldedNormalLifetime", "LogNormalLifetime", "WeibullLifetime"]
NAMING = ["arrow", "no_spaces", "ids", "custom"]


def naming_fn(kind):
    from flodym import flow_naming as fn

    if kind == "arrow":
        return fn.process_names_with_arrow, lambda a, b: f"{a.name} => {b.name}"
    if kind == "no_spaces":
        return fn.process_names_no_spaces, lambda a, b: f"{a.name.replace(' ', '_')}_to_{b.name.replace(' ', '_')}"
    if kind == "ids":
        return fn.process_ids, lambda a, b: f"F{a.id}_{b.id}"
    custom = lambda a, b: f"{b.name}<-{a.name}"
    return custom, custom


class MemReader(fd.DataReader):
    def __init__(self, U, prm_vals):
        self.U, self.prm_vals = U, prm_vals

    def read_dimension(self, definition):
        d = build.udim(self.U, definition.letter)
        return fd.Dimension(name=definition.name, letter=definition.letter, items=list(d["items"]), dtype=definition.dtype)

    def read_parameter_values(self, parameter_name, dims):
        return fd.Parameter(dims=dims, values=self.prm_vals[parameter_name].reshape(dims.shape).copy(), name=parameter_name)


def dim_defs(U):
    return [fd.DimensionDefinition(name=d["name"], letter=d["letter"], dtype=build._DT[d["dtype"]]) for d in U["dims"]]


def make_definition(desc):
    U = desc["universe"]
    flows = [
        fd.FlowDefinition(from_process=desc["procs"][f["src"]], to_process=desc["procs"][f["dst"]], dim_letters=tuple(f["letters"]), name_override=f.get("override"))
        for f in desc["flows"]
    ]
    stocks = []
    for s in desc["stocks"]:
        kw = dict(name=s["name"], dim_letters=tuple(s["letters"]), subclass=getattr(fd, s["cls"]), time_letter=s.get("time_letter", "t"))
        if s.get("defaults"):
            # fields left to the definition's own defaults: the built stock follows the DEFINITION's values
            kw.pop("name")
            if kw["time_letter"] == "t":
                kw.pop("time_letter")
        if s.get("proc") is not None:
            kw["process"] = desc["procs"][s["proc"]]
        if s.get("lt"):
            kw["lifetime_model_class"] = getattr(fd, s["lt"])
        if s.get("solver"):
            kw["solver"] = s["solver"]
        sd = fd.StockDefinition(**kw)
        s["name"] = sd.name  # what the definition says (its default when none was given)
        stocks.append(sd)
    params = [fd.ParameterDefinition(name=p["name"], dim_letters=tuple(p["letters"])) for p in desc["params"]]
    return fd.MFADefinition(dimensions=dim_defs(U), processes=list(desc["procs"]), flows=flows, stocks=stocks, parameters=params)


def expected_flow_names(desc, naming_kind):
    procs = {n: type("P", (), {"name": n, "id": i}) for i, n in enumerate(desc["procs"])}
    _, ref = naming_fn(naming_kind)
    out = []
    for f in desc["flows"]:
        gen_name = ref(procs[desc["procs"][f["src"]]], procs[desc["procs"][f["dst"]]])
        out.append(f["override"] if f.get("override") is not None else gen_name)
    return out


def check_dims(obj_dims, U, letters, what, bucket):
    require(list(obj_dims.letters) == list(letters), bucket, f"{what}: dims {obj_dims.letters} != listed {tuple(letters)}")
    for l in letters:
        d = build.udim(U, l)
        require(list(obj_dims[l].items) == list(d["items"]) and obj_dims[l].name == d["name"], bucket, f"{what}: items/name of {l}")


def check_system_parts(desc, processes, flows, stocks, naming_kind, where):
    U = desc["universe"]
    require(list(processes.keys()) == list(desc["procs"]), "process-order", f"{where}: {list(processes)}")
    for i, n in enumerate(desc["procs"]):
        require(processes[n].id == i and processes[n].name == n, "process-ids", f"{where}: {n} has id {processes[n].id}")
    names = expected_flow_names(desc, naming_kind)
    require(len(flows) == len(desc["flows"]), "flow-count", f"{where}: {len(flows)} flows for {len(desc['flows'])} definitions ({sorted(flows)})")
    for f, name in zip(desc["flows"], names):
        require(name in flows, "flow-name", f"{where}: no flow named {name!r} (have {sorted(flows)})")
        fl = flows[name]
        require(fl.name == name, "flow-name", f"{where}: flow stored under {name!r} is called {fl.name!r}")
        require(fl.from_process.name == desc["procs"][f["src"]] and fl.to_process.name == desc["procs"][f["dst"]], "flow-endpoints", f"{where}: {name}: {fl.from_process.name} -> {fl.to_process.name}")
        require(fl.from_process.id == f["src"] and fl.to_process.id == f["dst"], "flow-endpoints", f"{where}: {name} ids")
        check_dims(fl.dims, U, f["letters"], f"{where}: flow {name}", "flow-dims")
        require(isinstance(fl, fd.Flow) and fl.values.shape == tuple(fl.dims.shape) and not np.any(fl.values), "flow-not-zero", f"{where}: {name}")
    require(len(stocks) == len(desc["stocks"]), "stock-count", f"{where}: {len(stocks)} vs {len(desc['stocks'])}")
    for s in desc["stocks"]:
        require(s["name"] in stocks, "stock-name", f"{where}: {s['name']}")
        so = stocks[s["name"]]
        require(type(so) is getattr(fd, s["cls"]), "stock-class", f"{where}: {s['name']} is {type(so).__name__}, defined {s['cls']}")
        require(so.time_letter == s.get("time_letter", "t"), "stock-time-letter", f"{where}: {s['name']}")
        if s.get("proc") is None:
            require(so.process is None, "stock-process", f"{where}: {s['name']} has a process")
        else:
            require(so.process is not None and so.process.name == desc["procs"][s["proc"]] and so.process.id == s["proc"], "stock-process", f"{where}: {s['name']}")
        check_dims(so.dims, U, s["letters"], f"{where}: stock {s['name']}", "stock-dims")
        for q in ("stock", "inflow", "outflow"):
            arr = getattr(so, q)
            check_dims(arr.dims, U, s["letters"], f"{where}: stock {s['name']}.{q}", "stock-dims")
            require(not np.any(arr.values), "stock-not-zero", f"{where}: {s['name']}.{q}")
        if s.get("lt"):
            require(type(so.lifetime_model) is getattr(fd, s["lt"]), "stock-lifetime-model", f"{where}: {s['name']}: {type(so.lifetime_model).__name__} vs {s['lt']}")
            require(list(so.lifetime_model.dims.letters) == list(s["letters"]) and so.lifetime_model.time_letter == s.get("time_letter", "t"), "stock-lifetime-model", f"{where}: {s['name']} lifetime model dims")
        if s["cls"] == "StockDrivenDSM":
            require(so.solver == (s.get("solver") or "manual"), "stock-solver-dropped", f"{where}: {s['name']}: solver {so.solver!r}, defined {s.get('solver') or 'manual'!r}")


def prm_values(desc):
    U = desc["universe"]
    out = {}
    for i, p in enumerate(desc["params"]):
        out[p["name"]] = build.array_values(U, {"letters": p["letters"], "mode": "coded", "tag": "xyzw"[i % 4]})
    return out


def run_definitions(desc):
    U = desc["universe"]
    definition = make_definition(desc)
    ds = build.dimset(U)
    # 1. the three helpers, with every naming function
    processes = fd.make_processes(list(desc["procs"]))
    nk = desc["naming"]
    fn, _ = naming_fn(nk)
    flows = fd.make_empty_flows(processes=processes, flow_definitions=definition.flows, dims=ds, naming=fn) if nk != "arrow" or desc.get("explicit_naming") else fd.make_empty_flows(processes=processes, flow_definitions=definition.flows, dims=ds)
    stocks = fd.make_empty_stocks(stock_definitions=definition.stocks, processes=processes, dims=ds)
    check_system_parts(desc, processes, flows, stocks, nk, "helpers")
    # 1b. the SAME definition objects built again with another naming function: names follow the naming of that build,
    # and building never edits the definitions
    for fdef, f in zip(definition.flows, desc["flows"]):
        require(fdef.name_override == f.get("override"), "definition-changed-by-building", f"name_override now {fdef.name_override!r}, defined {f.get('override')!r}")
    other = "ids" if nk != "ids" else "custom"
    fn2, _ = naming_fn(other)
    flows2 = fd.make_empty_flows(processes=processes, flow_definitions=definition.flows, dims=ds, naming=fn2)
    exp2 = expected_flow_names(desc, other)
    require(sorted(flows2) == sorted(exp2), "flow-names-of-second-build", f"second build with naming '{other}' after '{nk}': {sorted(flows2)} expected {sorted(exp2)}")
    # 2. the whole pipeline through a data reader (default naming)
    if desc["naming"] == "arrow":
        pv = prm_values(desc)
        mfa = fd.MFASystem.from_data_reader(definition, MemReader(U, pv))
        check_system_parts(desc, mfa.processes, mfa.flows, mfa.stocks, "arrow", "from_data_reader")
        check_dims(mfa.dims, U, gen.uletters(U), "system dims", "system-dims")
        for d, dd in zip(mfa.dims, U["dims"]):
            require(d.dtype is build._DT[dd["dtype"]], "dimension-dtype", f"{d.letter}: {d.dtype}")
        require(list(mfa.parameters) == [p["name"] for p in desc["params"]], "parameter-names", str(list(mfa.parameters)))
        for p in desc["params"]:
            po = mfa.parameters[p["name"]]
            check_dims(po.dims, U, p["letters"], f"parameter {p['name']}", "parameter-dims")
            require(isinstance(po, fd.Parameter) and np.array_equal(po.values, pv[p["name"]]), "parameter-values", p["name"])
    cl = [f"naming:{nk}", f"flows:{min(len(desc['flows']), 4)}", f"stocks:{len(desc['stocks'])}"]
    pairs = [(f["src"], f["dst"]) for f in desc["flows"]]
    parallel = len(pairs) != len(set(pairs))
    special = any(s.get("solver") == "lapack" or s.get("time_letter", "t") != "t" for s in desc["stocks"])
    if parallel:
        cl.append("parallel-flows")
    if special:
        cl.append("non-default-solver-or-time-letter")
    return {"nontrivial": parallel or special, "classes": cl}


@st.composite
def definition_cases(draw):
    time_letter = draw(st.sampled_from(["t", "t", "y"]))
    U = draw(gen.universes(min_dims=2, max_dims=5, max_len=3, with_time=True, kinds=("str", "int")))
    U["dims"][0]["letter"] = time_letter
    U["dims"][0]["items"] = [2000 + i for i in range(max(3, len(U["dims"][0]["items"])))]
    U["dims"][0]["dtype"] = "int"
    U["dims"][0]["name"] = "Time" if time_letter == "t" else "Year"
    allL = gen.uletters(U)
    nproc = draw(st.integers(1, 5))
    procs = ["sysenv"] + draw(st.lists(st.sampled_from(["use", "end of life", "fabrication", "waste mgmt", "P 5", "recycling"]), unique=True, min_size=nproc - 1, max_size=nproc - 1))
    naming = draw(st.sampled_from(NAMING))
    flows = []
    for _ in range(draw(st.integers(0, 6))):
        flows.append({"src": draw(st.integers(0, nproc - 1)), "dst": draw(st.integers(0, nproc - 1)), "letters": draw(gen.ordered_subtuple(allL))})
    desc = {"universe": U, "procs": procs, "flows": flows, "naming": naming, "explicit_naming": draw(st.booleans())}
    # distinct names: later flows between an already used pair get an overriding name
    seen = set()
    for i, (f, n) in enumerate(zip(flows, expected_flow_names(desc, naming))):
        if n in seen or draw(st.integers(0, 5)) == 0:
            f["override"] = f"flow no. {i} ({n})"
        seen.add(f["override"] if f.get("override") is not None else n)
    if flows and draw(st.integers(0, 7)) == 0:
        # an overriding name is any string, also the empty one (a falsy value that is not "no override")
        k_ = draw(st.integers(0, len(flows) - 1))
        flows[k_]["override"] = ""
    stocks = []
    for i in range(draw(st.integers(0, 3))):
        cls = draw(st.sampled_from(STOCK_CLS))
        s = {"name": f"stock {i}", "cls": cls, "letters": [time_letter] + draw(gen.ordered_subtuple(allL[1:])), "proc": draw(st.sampled_from([None] + list(range(nproc)))), "time_letter": time_letter}
        if cls != "SimpleFlowDrivenStock":
            s["lt"] = draw(st.sampled_from(LT_CLS))
        if cls == "StockDrivenDSM":
            s["solver"] = draw(st.sampled_from([None, "manual", "lapack", "lapack"]))
        stocks.append(s)
    desc["stocks"] = stocks
    if stocks and draw(st.integers(0, 3)) == 0:
        stocks[draw(st.integers(0, len(stocks) - 1))]["defaults"] = True  # at most one: default names would collide
    desc["params"] = [{"name": f"prm {i}", "letters": draw(gen.ordered_subtuple(allL))} for i in range(draw(st.integers(0, 3)))]
    return desc


class Definitions(Facet):
    name = "definitions"
    examples = {"quick": 6000, "thorough": 180000}
    shards = {"quick": 16, "thorough": 16}

    def strategy(self, tier):
        return definition_cases()

    def run(self, desc):
        return run_definitions(desc)


# ----------------------------------------------------------------------------- negative


def run_negative(desc):
    base = desc["base"]
    kind = desc["kind"]
    U = base["universe"]
    tl = U["dims"][0]["letter"]
    d = {**base, "flows": [dict(f) for f in base["flows"]], "stocks": [dict(s) for s in base["stocks"]], "params": [dict(p) for p in base["params"]], "procs": list(base["procs"])}

    def build_all():
        definition = make_definition(d)
        pv = prm_values(d)
        return fd.MFASystem.from_data_reader(definition, MemReader(U, pv))

    if kind == "sysenv-not-first":
        if len(d["procs"]) < 2:
            d["procs"].append("use")
        d["procs"] = d["procs"][1:] + ["sysenv"]
        d["flows"], d["stocks"] = [], [dict(s, proc=None) for s in d["stocks"]]
    elif kind == "sysenv-missing":
        d["procs"] = ["environment"] + d["procs"][1:]
        d["flows"], d["stocks"] = [], [dict(s, proc=None) for s in d["stocks"]]
    elif kind == "undefined-dim-flow":
        d["flows"].append({"src": 0, "dst": 0, "letters": ["q"]})
    elif kind == "undefined-dim-stock":
        d["stocks"].append({"name": "bad", "cls": "SimpleFlowDrivenStock", "letters": [tl, "q"], "proc": None, "time_letter": tl})
    elif kind == "undefined-dim-param":
        d["params"].append({"name": "bad", "letters": ["q"]})
    elif kind == "undefined-process-flow":
        d["procs"] = d["procs"] + ["ghost"]
        definition = make_definition({**d, "flows": d["flows"] + [{"src": 0, "dst": len(d["procs"]) - 1, "letters": [tl]}]})
        definition.processes.remove("ghost")
        try:
            fd.MFASystem.from_data_reader(definition, MemReader(U, prm_values(d)))
        except Exception:
            return {"nontrivial": True, "classes": [f"neg:{kind}"]}
        raise Violation(f"accepted-{kind}", "")
    elif kind == "undefined-process-stock":
        d["procs"] = d["procs"] + ["ghost"]
        definition = make_definition({**d, "stocks": d["stocks"] + [{"name": "bad", "cls": "SimpleFlowDrivenStock", "letters": [tl], "proc": len(d["procs"]) - 1, "time_letter": tl}]})
        definition.processes.remove("ghost")
        try:
            fd.MFASystem.from_data_reader(definition, MemReader(U, prm_values(d)))
        except Exception:
            return {"nontrivial": True, "classes": [f"neg:{kind}"]}
        raise Violation(f"accepted-{kind}", "")
    elif kind == "lifetime-missing":
        d["stocks"].append({"name": "bad", "cls": desc["cls"], "letters": [tl], "proc": None, "time_letter": tl})
    elif kind == "lifetime-superfluous":
        d["stocks"].append({"name": "bad", "cls": "SimpleFlowDrivenStock", "lt": "NormalLifetime", "letters": [tl], "proc": None, "time_letter": tl})
    elif kind == "time-not-first":
        others = [l for l in gen.uletters(U) if l != tl]
        d["stocks"].append({"name": "bad", "cls": desc["cls"], "lt": None if desc["cls"] == "SimpleFlowDrivenStock" else "FixedLifetime", "letters": [others[0], tl], "proc": None, "time_letter": tl})
    elif kind == "time-absent":
        others = [l for l in gen.uletters(U) if l != tl]
        d["stocks"].append({"name": "bad", "cls": "SimpleFlowDrivenStock", "letters": [others[0]], "proc": None, "time_letter": tl})
    elif kind == "bad-solver":
        d["stocks"].append({"name": "bad", "cls": "StockDrivenDSM", "lt": "FixedLifetime", "solver": "fastest", "letters": [tl], "proc": None, "time_letter": tl})
    elif kind == "dim-letter-not-single":
        d["params"].append({"name": "bad", "letters": ["ab"]})
    try:
        build_all()
    except Exception:
        return {"nontrivial": True, "classes": [f"neg:{kind}"]}
    raise Violation(f"accepted-{kind}", f"procs {d['procs']} stocks {[(s['cls'], s['letters'], s.get('lt')) for s in d['stocks']]}")


NEG = ["sysenv-not-first", "sysenv-missing", "undefined-dim-flow", "undefined-dim-stock", "undefined-dim-param", "undefined-process-flow", "undefined-process-stock", "lifetime-missing", "lifetime-superfluous", "time-not-first", "time-absent", "bad-solver", "dim-letter-not-single"]


class Negative(Facet):
    name = "negative"
    examples = {"quick": 1500, "thorough": 60000}
    shards = {"quick": 8, "thorough": 16}

    def strategy(self, tier):
        return st.fixed_dictionaries({"base": definition_cases(), "kind": st.sampled_from(NEG), "cls": st.sampled_from(["InflowDrivenDSM", "StockDrivenDSM"])})

    def run(self, desc):
        if desc["kind"] == "time-not-first" and desc["cls"] not in STOCK_CLS:
            desc = dict(desc, cls="InflowDrivenDSM")
        return run_negative(desc)


# ----------------------------------------------------------------------------- dimfiles


def write_dim_file(path, name, items, fmt, orient, header, sheet=None, extra_sheet_first=False, later_sheets=()):
    cells = ([name] if header else []) + list(items)
    df = pd.DataFrame([cells]) if orient == "row" else pd.DataFrame({0: cells})
    if fmt == "csv":
        df.to_csv(path, header=False, index=False)
    else:
        with pd.ExcelWriter(path) as w:
            if extra_sheet_first:
                pd.DataFrame({0: ["decoy", "sheet"]}).to_excel(w, sheet_name="notes", header=False, index=False)
            df.to_excel(w, sheet_name=sheet or "Sheet1", header=False, index=False)
            if not extra_sheet_first and sheet:
                pd.DataFrame({0: ["decoy"]}).to_excel(w, sheet_name="zz other", header=False, index=False)
            for extra in later_sheets:
                # further sheets of the workbook (old versions, notes) - never the first one
                pd.DataFrame({0: ["old_1", "old_2"]}).to_excel(w, sheet_name=extra[:31], header=False, index=False)


def run_dimfiles(desc):
    U = desc["universe"]
    fmt = desc["fmt"]
    with tempfile.TemporaryDirectory(prefix="verif_c18_") as tmp:
        files, sheets = {}, {}
        real = [d for d in U["dims"] if not d.get("alias_of")]
        for d, sp in zip(real, desc["specs"]):
            path = os.path.join(tmp, f"dim_{d['letter']}.{'csv' if fmt == 'csv' else 'xlsx'}")
            named_sheet = fmt == "excel" and desc["sheets"] == "named"
            # sheet names are free text as well: '0', '1', '2020' are names, not positions
            sname = [f"dim {d['letter']}", "0", "1", "2020"][sp.get("sheetname", 0) % 4]
            later = ()
            if fmt == "excel" and not named_sheet and sp.get("later_sheet"):
                # no sheet is named, so the FIRST sheet is the one to read - whatever the others are called
                later = ({1: d["name"], 2: d["letter"], 3: "items"}[sp["later_sheet"]],)
            write_dim_file(path, d["name"], d["items"], fmt, sp["orient"], sp["header"], sheet=sname if named_sheet else None, extra_sheet_first=named_sheet and sp["decoy_first"], later_sheets=later)
            files[d["name"]] = path
            if named_sheet:
                sheets[d["name"]] = sname
        for d in U["dims"]:
            if d.get("alias_of"):
                # a second dimension that takes its items from the same file (vintages from the years file)
                src = build.udim(U, d["alias_of"])
                files[d["name"]] = files[src["name"]]
                if src["name"] in sheets:
                    sheets[d["name"]] = sheets[src["name"]]
        defs = dim_defs(U)
        if fmt == "csv":
            reader = fd.CSVDimensionReader(dimension_files=files)
        elif desc["sheets"] == "named":
            reader = fd.ExcelDimensionReader(dimension_files=files, dimension_sheets=sheets)
        else:
            reader = fd.ExcelDimensionReader(dimension_files=files)
        try:
            ds = reader.read_dimensions(defs)
        except Exception as e:
            b = "excel-first-sheet-not-read" if fmt == "excel" and desc["sheets"] == "first" else "dimension-file-rejected"
            raise Violation(b, f"{type(e).__name__}: {str(e)[:160]}; fmt {fmt} sheets {desc['sheets']} specs {desc['specs']}")
    # a file with more than one row AND more than one column is not a list of items
    if fmt == "csv":
        with tempfile.TemporaryDirectory(prefix="verif_c18_") as tmp2:
            bad = os.path.join(tmp2, "bad.csv")
            pd.DataFrame([[1, 2], [3, 4]]).to_csv(bad, header=False, index=False)
            d0 = U["dims"][0]
            try:
                fd.CSVDimensionReader(dimension_files={d0["name"]: bad}).read_dimensions(dim_defs({"dims": [d0]}))
            except Exception:
                pass
            else:
                raise Violation("two-dimensional-dimension-file-accepted", "2x2 table read as dimension items")
    require(list(ds.letters) == gen.uletters(U), "dimension-order", str(ds.letters))
    specs_by_letter = {d["letter"]: sp for d, sp in zip(real, desc["specs"])}
    for d in U["dims"]:
        sp = specs_by_letter.get(d.get("alias_of") or d["letter"])
        got = ds[d["letter"]]
        require(got.name == d["name"], "dimension-name", d["letter"])
        require(list(got.items) == list(d["items"]), "dimension-items", f"{d['letter']} ({sp}): {got.items} vs {d['items']}")
        tp = build._DT[d["dtype"]]
        require(all(type(i) is tp for i in got.items) and got.dtype is tp, "dimension-item-type", f"{d['letter']}: {[type(i).__name__ for i in got.items]}")
    variants = {(sp["orient"], sp["header"]) for sp in desc["specs"]}
    al = [d for d in U["dims"] if d.get("alias_of")]
    acl = ["shared-file" + (":other-dtype" if any(d["dtype"] != build.udim(U, d["alias_of"])["dtype"] for d in al) else "")] if al else []
    return {"nontrivial": len(variants) >= 2 or desc["sheets"] == "first" or bool(al), "classes": [f"fmt:{fmt}", f"sheets:{desc['sheets']}"] + [f"{o}-{'header' if h else 'bare'}" for o, h in sorted(variants)] + acl}


@st.composite
def dimfile_cases(draw):
    U = draw(gen.universes(min_dims=1, max_dims=4, max_len=4, kinds=("str", "int")))
    for d in U["dims"]:  # file order is arbitrary, not sorted
        d["items"] = list(draw(st.permutations(d["items"])))
        if d["dtype"] == "str" and draw(st.integers(0, 3)) == 0:
            # labels that look like numbers (size classes, codes): '1.0', '2.5', '12' come back from pandas as numbers
            # and str() gives the same text again
            # (all of one form: a mix of '0.5' and '12' is read as floats and '12' would come back as '12.0')
            pool = draw(st.sampled_from([["1.0", "2.0", "2.5", "10.0", "0.5", "3.25"], ["12", "7", "100", "3", "2020", "45"]]))
            k0 = draw(st.integers(0, len(pool) - len(d["items"])))
            d["items"] = list(draw(st.permutations(pool[k0 : k0 + len(d["items"])])))
        elif d["dtype"] == "str" and draw(st.integers(0, 3)) == 0:
            # labels with characters that mean something to file parsers: '#', ';', '%', quotes
            odd = draw(st.permutations(["C#1", "#2 fuel oil", "a;b", "50%", "it's", "x=y", "p|q", "[new]"]))
            d["items"] = list(odd[: len(d["items"])])
        elif d["dtype"] == "str" and draw(st.integers(0, 2)) == 0:
            # labels are free text: a size class may be called 's', a region 'b', a product 'Time'
            others = [o["letter"] for o in U["dims"]] + [o["name"] for o in U["dims"] if o is not d]
            lab = draw(st.sampled_from(others))
            pos = draw(st.integers(0, len(d["items"]) - 1))
            if lab not in d["items"]:
                d["items"][pos] = lab
    specs = [{"orient": draw(st.sampled_from(["row", "col"])), "header": draw(st.booleans()), "decoy_first": draw(st.booleans()), "sheetname": draw(st.integers(0, 3)), "later_sheet": draw(st.sampled_from([0, 0, 1, 1, 2, 3]))} for _ in U["dims"]]
    fmt = draw(st.sampled_from(["csv", "excel", "excel"]))
    if draw(st.integers(0, 2)) == 0:
        # further dimensions whose items come from a file another dimension uses too (no header line in that
        # file, since a header names one dimension); the declared type may differ: years as int and as str
        for k in range(draw(st.integers(1, 2))):
            si = draw(st.integers(0, len(specs) - 1))
            src = U["dims"][si]
            specs[si]["header"] = False
            dt = draw(st.sampled_from(["int", "str"])) if src["dtype"] == "int" else "str"
            items = [str(i) for i in src["items"]] if (dt == "str" and src["dtype"] == "int") else list(src["items"])
            U["dims"].append({"letter": "xy"[k], "name": f"Alias {k} of {src['name']}", "items": items, "dtype": dt, "alias_of": src["letter"]})
    return {"universe": U, "specs": specs, "fmt": fmt, "sheets": draw(st.sampled_from(["named", "first"])) if fmt == "excel" else "n/a"}


class DimFiles(Facet):
    name = "dimfiles"
    examples = {"quick": 1200, "thorough": 36000}
    shards = {"quick": 16, "thorough": 16}

    def strategy(self, tier):
        return dimfile_cases()

    def run(self, desc):
        return run_dimfiles(desc)


# -------------------------------------------------------------------------------- files


def run_files(desc):
    base = desc["base"]
    U = base["universe"]
    fmt = desc["fmt"]
    definition = make_definition(base)
    pv = prm_values(base)
    with tempfile.TemporaryDirectory(prefix="verif_c18_") as tmp:
        dfiles, pfiles, dsheets, psheets = {}, {}, {}, {}
        ext = "csv" if fmt == "csv" else "xlsx"
        for d in U["dims"]:
            path = os.path.join(tmp, f"dim_{d['letter']}.{ext}")
            write_dim_file(path, d["name"], d["items"], fmt, desc["orient"], desc["header"], sheet="items" if desc["sheets"] == "named" else None,
                           later_sheets=(d["name"],) if (fmt == "excel" and desc["sheets"] != "named" and desc.get("later_sheets")) else ())
            dfiles[d["name"]] = path
            dsheets[d["name"]] = "items"
        for p in base["params"]:
            arr = fd.Parameter(dims=build.dimset(U, p["letters"]), values=pv[p["name"]], name=p["name"])
            path = os.path.join(tmp, f"{p['name'].replace(' ', '_')}.{ext}")
            if not p["letters"]:
                df = pd.DataFrame({"value": [float(arr.values)]})
            else:
                df = arr.to_df(index=False)
            if fmt == "csv":
                df.to_csv(path, index=False)
            else:
                with pd.ExcelWriter(path) as w:
                    df.to_excel(w, sheet_name="values" if desc["sheets"] == "named" else "Sheet1", index=False)
                    if desc["sheets"] == "named":
                        pd.DataFrame({"x": [1]}).to_excel(w, sheet_name="zz notes", index=False)
                    elif desc.get("later_sheets"):
                        # no sheet named: the first one counts, also when a later sheet is called like the parameter
                        pd.DataFrame({"value": [123.0]}).to_excel(w, sheet_name=p["name"][:31], index=False)
            pfiles[p["name"]] = path
            psheets[p["name"]] = "values"
        try:
            if fmt == "csv":
                mfa = fd.MFASystem.from_csv(definition, dimension_files=dfiles, parameter_files=pfiles)
            elif desc["sheets"] == "named":
                mfa = fd.MFASystem.from_excel(definition, dimension_files=dfiles, parameter_files=pfiles, dimension_sheets=dsheets, parameter_sheets=psheets)
            else:
                mfa = fd.MFASystem.from_excel(definition, dimension_files=dfiles, parameter_files=pfiles)
        except Exception as e:
            b = "excel-first-sheet-not-read" if fmt == "excel" and desc["sheets"] == "first" else "system-files-rejected"
            raise Violation(b, f"{type(e).__name__}: {str(e)[:200]}; fmt {fmt} sheets {desc['sheets']} params {[p['letters'] for p in base['params']]}")
    check_system_parts(base, mfa.processes, mfa.flows, mfa.stocks, "arrow", f"from_{fmt}")
    check_dims(mfa.dims, U, gen.uletters(U), "system dims", "system-dims")
    for p in base["params"]:
        po = mfa.parameters[p["name"]]
        check_dims(po.dims, U, p["letters"], f"parameter {p['name']}", "parameter-dims")
        require(np.array_equal(po.values, pv[p["name"]]), "parameter-values", f"{p['name']} over {p['letters']}")
    return {"nontrivial": bool(base["params"]) and (desc["sheets"] == "first" or fmt == "csv"), "classes": [f"fmt:{fmt}", f"sheets:{desc['sheets']}", f"params:{len(base['params'])}"]}


@st.composite
def file_cases(draw):
    base = draw(definition_cases())
    base["naming"] = "arrow"
    # generated names must be distinct under the default naming
    seen = set()
    for i, (f, n) in enumerate(zip(base["flows"], expected_flow_names(base, "arrow"))):
        if n in seen:
            f["override"] = f"flow no. {i}"
        seen.add(f["override"] if f.get("override") is not None else n)
    # 0-d parameters cannot be told apart from a bare value column; keep >= 1 dim for file based parameters
    base["params"] = [p for p in base["params"] if p["letters"]]
    fmt = draw(st.sampled_from(["csv", "excel", "excel"]))
    return {"base": base, "fmt": fmt, "sheets": draw(st.sampled_from(["named", "first"])) if fmt == "excel" else "n/a", "orient": draw(st.sampled_from(["row", "col"])), "header": draw(st.booleans()), "later_sheets": draw(st.booleans())}


class Files(Facet):
    name = "files"
    examples = {"quick": 600, "thorough": 18000}
    shards = {"quick": 16, "thorough": 16}

    def strategy(self, tier):
        return file_cases()

    def run(self, desc):
        return run_files(desc)


Prop(
    "C18",
    "exploration",
    "definitions: generated MFADefinitions (2-5 dims int/str incl. a time letter other than 't', 1-5 processes with spaces in names, "
    "0-6 flows over ordered dim subsets incl. parallel flows and self-loops named through the three naming functions, a custom one or "
    "name_override, 0-3 stocks of every class / lifetime model / solver / with or without process, 0-3 parameters) built through "
    "make_processes / make_empty_flows / make_empty_stocks and from_data_reader; every attribute compared with the definition. "
    "negative: 13 kinds of ill-formed definitions must be refused. dimfiles: CSV / Excel x row / column x header / bare x int / str x "
    "named sheet (with decoy sheets before or after) / first sheet. files: from_csv / from_excel end to end with parameter files. "
    "Non-trivial = >= 2 flows between the same pair, a non-default solver or time letter, or a file with header/orientation variants / "
    "first-sheet reading.",
    [Definitions(), Negative(), DimFiles(), Files()],
    assumptions=[
        "flow names are distinct (parallel flows get a name_override), as the quantifier says",
        "dimension items are plain identifiers / ints whose text pandas does not re-interpret",
        "file-based parameters have >= 1 dimension",
    ],
)
