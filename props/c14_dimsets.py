"""C14 - dimension sets behave as ordered sets of uniquely lettered dimensions.

Facet ``pairs``    : exhaustive receiver x argument over a 4-dimension alphabet, every set
                     operator / named method / subset selection, against an ordered-list model.
Facet ``history``  : generated histories of in-place and out-of-place operations over a pool
                     of sets (and arrays built from them); after every step every pooled set
                     must equal its own list model.
"""
from __future__ import annotations

import itertools

from hypothesis import strategies as st

from vlib import build
from vlib.build import fd
from vlib.runner import Facet, Prop, Violation, require

ALPHA = {
    "a": dict(name="Alpha", items=["a0", "a1"]),
    "b": dict(name="Beta dim", items=[10, 11, 12]),
    "c": dict(name="Gamma", items=["c0"]),
    "d": dict(name="Delta dim", items=["d0", "d1"]),
    "e": dict(name="Epsilon", items=[1, 2, 3, 4]),
    "f": dict(name="Phi dim", items=["f0", "f1", "f2"]),
    "g": dict(name="Gimel", items=[]),  # a dimension may be empty (nothing selected yet); only used in histories
}


def mkdim(letter, variant=0):
    spec = ALPHA[letter]
    if variant == 0:
        return fd.Dimension(letter=letter, name=spec["name"], items=list(spec["items"]))
    if variant == "sub":
        # the same dimension restricted / re-ordered (e.g. the historic part of the years): same letter and name
        its = list(spec["items"])
        return fd.Dimension(letter=letter, name=spec["name"], items=its[:-1] if len(its) > 1 else its + ["extra"])
    if variant == "renamed":
        return fd.Dimension(letter=letter, name=spec["name"] + " (alt)", items=list(spec["items"]))
    # a different dimension that clashes by letter
    return fd.Dimension(letter=letter, name=spec["name"] + " bis", items=["zz0", "zz1", "zz2"][: 1 + variant])


def mkset(letters):
    return fd.DimensionSet(dim_list=[mkdim(l) for l in letters])


def subtuples(alphabet):
    out = []
    for r in range(len(alphabet) + 1):
        for comb in itertools.combinations(alphabet, r):
            out.extend(itertools.permutations(comb))
    return [list(x) for x in out]


def check_set(ds, model, bucket, dims_by_letter=None):
    """Every observable of ``ds`` agrees with the ordered list ``model`` (letters)."""
    letters = tuple(ds.letters)
    require(len(set(letters)) == len(letters), bucket, f"letters not unique: {letters}")
    require(list(letters) == list(model), bucket, f"letters {letters} != model {tuple(model)}")
    exp_names = tuple(ALPHA[l]["name"] if dims_by_letter is None else dims_by_letter[l].name for l in model)
    require(tuple(ds.names) == exp_names, bucket, f"names {ds.names} != {exp_names}")
    exp_shape = tuple(
        len(ALPHA[l]["items"]) if dims_by_letter is None else dims_by_letter[l].len for l in model
    )
    require(tuple(ds.shape) == exp_shape, bucket, f"shape {ds.shape} != {exp_shape}")
    tot = 1
    for n in exp_shape:
        tot *= n
    require(ds.total_size == tot, bucket, f"total_size {ds.total_size} != {tot}")
    require(len(ds) == len(model) and ds.ndim == len(model), bucket, "len/ndim")
    require(bool(ds) == (len(model) > 0), bucket, "bool")
    require(ds.string == "".join(model), bucket, "string")
    require([d.letter for d in ds] == list(model), bucket, "iteration order")
    for i, l in enumerate(model):
        name = exp_names[i]
        require(ds[l].letter == l and ds[name].letter == l and ds[i].letter == l, bucket, f"lookup {l}")
        require(ds.index(l) == i and ds.index(name) == i, bucket, f"index({l})")
        require(ds.size(l) == exp_shape[i] and ds.size(name) == exp_shape[i], bucket, f"size({l})")
        require(l in ds and name in ds and ds[i] in ds, bucket, f"membership {l}")
        if dims_by_letter is not None:
            require(list(ds[l].items) == list(dims_by_letter[l].items), bucket, f"items of {l}")
    for l in ALPHA:
        if l not in model and dims_by_letter is None:
            require(l not in ds and ALPHA[l]["name"] not in ds, bucket, f"{l} reported as member")


def raises(fn):
    try:
        fn()
    except Exception:
        return True
    return False


# --------------------------------------------------------------------------- pairs


def m_union(x, y):
    return list(x) + [l for l in y if l not in x]


def m_inter(x, y):
    return [l for l in x if l in y]


def m_diff(x, y):
    return [l for l in x if l not in y]


class Pairs(Facet):
    name = "pairs"
    exhaustive = True
    shards = {"quick": 8, "thorough": 16}

    def enumerate(self, tier):
        alpha = "abcd"
        subs = subtuples(alpha)
        for x in subs:
            for y in subs:
                yield {"recv": x, "arg": y}

    def run(self, desc):
        x, y = desc["recv"], desc["arg"]
        X, Y = mkset(x), mkset(y)
        ops = {
            "|": (lambda: X | Y, m_union(x, y)),
            "union_with": (lambda: X.union_with(Y), m_union(x, y)),
            "&": (lambda: X & Y, m_inter(x, y)),
            "intersect_with": (lambda: X.intersect_with(Y), m_inter(x, y)),
            "-": (lambda: X - Y, m_diff(x, y)),
            "difference_with": (lambda: X.difference_with(Y), m_diff(x, y)),
            "^": (lambda: X ^ Y, m_union(m_diff(x, y), m_diff(y, x))),
        }
        for opname, (fn, exp) in ops.items():
            res = fn()
            check_set(res, exp, f"setop-{opname}")
            check_set(X, x, f"setop-{opname}-mutates-receiver")
            check_set(Y, y, f"setop-{opname}-mutates-argument")
        overlap = bool(m_inter(x, y))
        if overlap:
            require(raises(lambda: X + Y), "plus-accepts-overlap", f"{x} + {y} did not raise")
        else:
            check_set(X + Y, m_union(x, y), "setop-+")
        check_set(X, x, "setop-+-mutates-receiver")
        if overlap:
            # set algebra goes by letter: the argument's dimensions of the same letters may differ in their other
            # fields (fewer items, another name) without changing which letters the result holds, and in which order
            for variant in ("sub", "renamed"):
                Yv = fd.DimensionSet(dim_list=[mkdim(l, variant) for l in y])
                for opname, fn, exp in (
                    ("|", lambda: X | Yv, m_union(x, y)),
                    ("&", lambda: X & Yv, m_inter(x, y)),
                    ("-", lambda: X - Yv, m_diff(x, y)),
                    ("^", lambda: X ^ Yv, m_union(m_diff(x, y), m_diff(y, x))),
                    ("union_with", lambda: X.union_with(Yv), m_union(x, y)),
                    ("intersect_with", lambda: X.intersect_with(Yv), m_inter(x, y)),
                    ("difference_with", lambda: X.difference_with(Yv), m_diff(x, y)),
                ):
                    res = fn()
                    require(list(res.letters) == list(exp), f"setop-{opname}-same-letter-other-fields", f"{x} {opname} {y}({variant}): letters {tuple(res.letters)} != {tuple(exp)}")
                    if opname in ("&", "-", "intersect_with", "difference_with"):
                        # what is left of the receiver consists of the RECEIVER's dimensions (names, sizes)
                        require(tuple(res.shape) == tuple(len(ALPHA[l]["items"]) for l in exp) and tuple(res.names) == tuple(ALPHA[l]["name"] for l in exp),
                                f"setop-{opname}-members-not-from-receiver", f"{x} {opname} {y}({variant}): names {res.names} shape {res.shape}")
                    require(len(set(res.letters)) == len(res.letters), f"setop-{opname}-same-letter-other-fields", "letters not unique")
                require(raises(lambda: X + Yv), "plus-accepts-overlap", f"{x} + {y}({variant}) did not raise")
                if len(y) == 1:
                    Dv = mkdim(y[0], variant)
                    require(list((X - Dv).letters) == m_diff(x, y), "setop---dimension-same-letter-other-fields", f"{x} - {y}({variant})")
                    require(list((X & Dv).letters) == m_inter(x, y), "setop-&-dimension-same-letter-other-fields", f"{x} & {y}({variant})")
                    ri = X & Dv
                    require(tuple(ri.shape) == tuple(len(ALPHA[l]["items"]) for l in m_inter(x, y)) and tuple(ri.names) == tuple(ALPHA[l]["name"] for l in m_inter(x, y)),
                            "setop-&-members-not-from-receiver", f"{x} & Dimension {y}({variant}): names {ri.names} shape {ri.shape}")
                    ri2 = X.intersect_with(Dv)
                    require(tuple(ri2.shape) == tuple(ri.shape) and tuple(ri2.names) == tuple(ri.names), "setop-&-members-not-from-receiver", "intersect_with(Dimension)")
                    require(list((X ^ Dv).letters) == m_union(m_diff(x, y), m_diff(y, x)), "setop-^-dimension-same-letter-other-fields", f"{x} ^ {y}({variant})")
                    require(list((X | Dv).letters) == m_union(x, y), "setop-|-dimension-same-letter-other-fields", f"{x} | {y}({variant})")
        if len(y) == 1:  # bare Dimension as right operand
            D = mkdim(y[0])
            check_set(X | D, m_union(x, y), "setop-|-dimension")
            check_set(X & D, m_inter(x, y), "setop-&-dimension")
            check_set(X - D, m_diff(x, y), "setop---dimension")
            check_set(X ^ D, m_union(m_diff(x, y), m_diff(y, x)), "setop-^-dimension")
            if overlap:
                require(raises(lambda: X + D), "plus-accepts-overlap", "Dimension")
                require(raises(lambda: D + X), "plus-accepts-overlap", "Dimension + set")
            else:
                check_set(X + D, m_union(x, y), "setop-+-dimension")
                check_set(D + X, m_union(y, x), "setop-dimension-+")
        # subset selection in the requested order, by letters / names / mixed / tuple key
        if all(l in x for l in y):
            names = [ALPHA[l]["name"] for l in y]
            mixed = [n if i % 2 else l for i, (l, n) in enumerate(zip(y, names))]
            for how, sel in (("letters", tuple(y)), ("names", tuple(names)), ("mixed", tuple(mixed))):
                check_set(X.get_subset(sel), y, f"get_subset-{how}")
                check_set(X[sel], y, f"getitem-tuple-{how}")
            check_set(X, x, "get_subset-mutates-receiver")
        else:
            require(raises(lambda: X.get_subset(tuple(y))), "get_subset-unknown-accepted", f"{y} of {x}")
        nontrivial = bool(overlap and m_diff(x, y) and m_diff(y, x)) or (
            len(m_inter(x, y)) > 1 and m_inter(x, y) != m_inter(y, x)
        )
        return {"nontrivial": nontrivial, "classes": ["overlap" if overlap else "disjoint"]}


# ------------------------------------------------------------------------- histories

LET6 = "abcdefg"
step = st.fixed_dictionaries(
    {
        "op": st.sampled_from(
            [
                "new", "copy", "subset_all", "subset_sel", "binop", "append", "prepend", "insert", "swap", "swap",
                "expand", "replace", "drop", "array", "append", "insert", "drop", "subset_all",
                "array_sum", "intersect",
            ]
        ),
        "i": st.integers(0, 7),
        "j": st.integers(0, 7),
        "k": st.integers(0, 6),
        "sel": st.lists(st.integers(0, 6), max_size=4),
        "inplace": st.booleans(),
        "clash": st.sampled_from([0, 0, 0, 1, 2]),
        "bin": st.sampled_from(["|", "&", "-", "^", "+"]),
        "byname": st.booleans(),
    }
)


class History(Facet):
    name = "history"
    examples = {"quick": 6000, "thorough": 450000}
    shards = {"quick": 8, "thorough": 16}

    def strategy(self, tier):
        n = 14 if tier == "quick" else 30
        return st.fixed_dictionaries(
            {"start": st.lists(st.sampled_from(list(LET6)), unique=True, max_size=4), "steps": st.lists(step, min_size=1, max_size=n),
             "check_every_step": st.booleans(), "reinsert_at_dropped": st.booleans()}
        )

    def run(self, desc):
        # pool entries: [obj, model(list of letters), dims_by_letter, origin]
        pool = []
        arrays = []  # keep arrays alive

        def add(ds, model, dbl, origin):
            pool.append([ds, list(model), {l: dbl[l] for l in model}, origin])

        base_dbl = {l: mkdim(l) for l in LET6}
        add(fd.DimensionSet(dim_list=[base_dbl[l] for l in desc["start"]]), desc["start"], {l: base_dbl[l] for l in desc["start"]}, "new")

        def invariant(after, touched):
            for n, (ds, model, dbl, origin) in enumerate(pool):
                if n == touched or n >= n_before:
                    check_set(ds, model, f"{after}-result-wrong", dbl)
                else:  # a set the step did not address must not change
                    check_set(ds, model, "untouched-set-changed", dbl)

        n_inplace_on_returned = 0
        n_fail = 0
        last_dropped = None
        every_step = desc.get("check_every_step", True)
        classes = set()
        for s in desc["steps"]:
            op = s["op"]
            n_before = len(pool)
            ent = pool[s["i"] % len(pool)]
            ds, model, dbl, origin = ent
            if origin == "array":
                # editing an array's own dims in place is outside the contract (C13)
                s = dict(s, inplace=False)
            other = pool[s["j"] % len(pool)]
            key = op
            if op == "new":
                letters = []
                for x in s["sel"]:
                    l = LET6[x]
                    if l not in letters:
                        letters.append(l)
                add(fd.DimensionSet(dim_list=[base_dbl[l] for l in letters]), letters, {l: base_dbl[l] for l in letters}, "new")
            elif op == "copy":
                add(ds.copy(), model, dbl, "returned")
            elif op == "subset_all":
                add(ds.get_subset(), model, dbl, "returned")
            elif op == "subset_sel":
                if not model:
                    continue
                sel = []
                for x in s["sel"]:
                    l = model[x % len(model)]
                    if l not in sel:
                        sel.append(l)
                keys = tuple(dbl[l].name if s["byname"] else l for l in sel)
                add(ds.get_subset(keys), sel, {l: dbl[l] for l in sel}, "returned")
            elif op in ("binop", "intersect"):
                ods, omodel, odbl, _ = other
                # operands must agree on what each shared letter means (one common universe)
                if any(odbl[l] is not dbl[l] and odbl[l].name != dbl[l].name for l in omodel if l in model):
                    continue
                b = "&" if op == "intersect" else s["bin"]
                key = f"binop{b}"
                merged = dict(odbl)
                merged.update(dbl)
                if b == "|":
                    add(ds | ods, m_union(model, omodel), merged, "returned")
                elif b == "&":
                    add(ds & ods, m_inter(model, omodel), merged, "returned")
                elif b == "-":
                    add(ds - ods, m_diff(model, omodel), merged, "returned")
                elif b == "^":
                    add(ds ^ ods, m_union(m_diff(model, omodel), m_diff(omodel, model)), merged, "returned")
                else:
                    if m_inter(model, omodel):
                        require(raises(lambda: ds + ods), "plus-accepts-overlap", "history")
                        n_fail += 1
                    else:
                        add(ds + ods, m_union(model, omodel), merged, "returned")
            elif op in ("append", "prepend", "insert"):
                letter = LET6[s["k"]]
                clash = letter in model
                # a free letter may be taken by ANOTHER dimension than before (same letter, other name and items)
                new_dim = mkdim(letter, s["clash"]) if (clash or s["clash"]) else base_dbl[letter]
                idx = s["j"] % (len(model) + 1)
                if op == "insert" and desc.get("reinsert_at_dropped") and last_dropped is not None and letter == last_dropped[0]:
                    idx = min(last_dropped[1], len(model))
                if op == "append":
                    call = lambda: ds.append(new_dim, inplace=s["inplace"])
                    idx = len(model)
                elif op == "prepend":
                    call = lambda: ds.prepend(new_dim, inplace=s["inplace"])
                    idx = 0
                else:
                    call = lambda: ds.insert(idx, new_dim, inplace=s["inplace"])
                if clash:
                    require(raises(call), f"{op}-accepts-clash", f"letter {letter} into {model}")
                    n_fail += 1
                else:
                    res = call()
                    newmodel = model[:idx] + [letter] + model[idx:]
                    newdbl = dict(dbl)
                    newdbl[letter] = new_dim
                    if s["inplace"]:
                        require(res is None, f"{op}-inplace-returns", "")
                        ent[1], ent[2] = newmodel, newdbl
                        if origin == "returned":
                            n_inplace_on_returned += 1
                    else:
                        add(res, newmodel, newdbl, "returned")
            elif op == "swap":
                # exchange a dimension for ANOTHER dimension with the same letter at the same position, in place
                # (drop + insert/append/prepend: what one does because replace() refuses an equal letter)
                if not model or origin == "array":
                    continue
                letter = model[s["k"] % len(model)]
                pos = model.index(letter)
                new_dim = mkdim(letter, 1 + s["clash"] % 2)
                if new_dim.name == dbl[letter].name:
                    new_dim = base_dbl[letter]
                ds.drop(dbl[letter].name if s["byname"] else letter, inplace=True)
                if pos == len(model) - 1 and s["j"] % 2:
                    ds.append(new_dim, inplace=True)
                elif pos == 0 and s["j"] % 2:
                    ds.prepend(new_dim, inplace=True)
                else:
                    ds.insert(pos, new_dim, inplace=True)
                newdbl = dict(dbl)
                newdbl[letter] = new_dim
                ent[2] = newdbl
                s = dict(s, inplace=True)
            elif op == "expand":
                new_letters = []
                for x in s["sel"][:3]:
                    l = LET6[x]
                    if l not in new_letters:
                        new_letters.append(l)
                if not new_letters:
                    continue
                clash = any(l in model for l in new_letters)
                new_dims = [mkdim(l, s["clash"]) if l in model else base_dbl[l] for l in new_letters]
                call = (lambda: ds.extend(new_dims, inplace=s["inplace"])) if s["j"] % 2 else (lambda: ds.expand_by(new_dims, inplace=s["inplace"]))
                if clash:
                    require(raises(call), "expand-accepts-clash", f"{new_letters} into {model}")
                    n_fail += 1
                else:
                    res = call()
                    newmodel = model + new_letters
                    newdbl = dict(dbl)
                    newdbl.update({l: d for l, d in zip(new_letters, new_dims)})
                    if s["inplace"]:
                        ent[1], ent[2] = newmodel, newdbl
                        if origin == "returned":
                            n_inplace_on_returned += 1
                    else:
                        add(res, newmodel, newdbl, "returned")
            elif op == "replace":
                if not model:
                    continue
                old = model[s["j"] % len(model)]
                letter = LET6[s["k"]]
                if letter == old:
                    continue  # replacing a dimension by one of the same letter: not covered
                clash = letter in model
                new_dim = mkdim(letter, s["clash"]) if clash else base_dbl[letter]
                k_ = dbl[old].name if s["byname"] else old
                call = lambda: ds.replace(k_, new_dim, inplace=s["inplace"])
                if clash:
                    require(raises(call), "replace-accepts-clash", f"{letter} for {old} in {model}")
                    n_fail += 1
                else:
                    res = call()
                    newmodel = [letter if l == old else l for l in model]
                    newdbl = {l: d for l, d in dbl.items() if l != old}
                    newdbl[letter] = new_dim
                    if s["inplace"]:
                        ent[1], ent[2] = newmodel, newdbl
                        if origin == "returned":
                            n_inplace_on_returned += 1
                    else:
                        add(res, newmodel, newdbl, "returned")
            elif op == "drop":
                letter = LET6[s["k"]]
                k_ = ALPHA[letter]["name"] if s["byname"] else letter
                call = (lambda: ds.remove(k_, inplace=s["inplace"])) if s["clash"] else (lambda: ds.drop(k_, inplace=s["inplace"]))
                if letter not in model or (s["byname"] and dbl[letter].name != k_):
                    if letter in model:
                        continue
                    require(raises(call), "drop-unknown-accepted", f"{letter} from {model}")
                    n_fail += 1
                else:
                    res = call()
                    if s["inplace"]:
                        last_dropped = (letter, model.index(letter))
                    newmodel = [l for l in model if l != letter]
                    newdbl = {l: d for l, d in dbl.items() if l != letter}
                    if s["inplace"]:
                        ent[1], ent[2] = newmodel, newdbl
                        if origin == "returned":
                            n_inplace_on_returned += 1
                    else:
                        add(res, newmodel, newdbl, "returned")
            elif op in ("array", "array_sum"):
                arr = fd.FlodymArray(dims=ds)
                if op == "array_sum" and model:
                    keep = tuple(model[: max(1, len(model) // 2)])
                    arr = arr.sum_to(keep)
                    arrays.append(arr)
                    add(arr.dims, list(keep), {l: dbl[l] for l in keep}, "array")
                else:
                    arrays.append(arr)
                    add(arr.dims, model, dbl, "array")
            classes.add(key)
            if every_step:
                invariant(key, s["i"] % n_before if s["inplace"] else -1)
            else:
                # between the steps only what does not go through name/letter lookups is looked at
                for n_, (ds_, model_, dbl_, _) in enumerate(pool):
                    require(list(ds_.letters) == list(model_), "untouched-set-changed" if n_ != s["i"] % n_before else f"{key}-result-wrong", f"letters {ds_.letters} != model {tuple(model_)}")
            if len(pool) > 24:
                break
        n_before = len(pool) + 1
        invariant("end-of-history", -1)
        # arrays still consistent with their own dims
        for arr in arrays:
            require(arr.values.shape == tuple(arr.dims.shape), "array-shape-diverged", f"{arr.values.shape} vs {arr.dims.shape}")
        return {
            "nontrivial": n_inplace_on_returned > 0,
            "classes": sorted(classes) + (["has-failed-step"] if n_fail else []) + (["inplace-on-returned"] if n_inplace_on_returned else []),
        }


# ------------------------------------------------------------------ same name, other letter


class SameName(Facet):
    """Sets in which two dimensions share a NAME but carry different letters (origin and destination 'Region'):
    only letters have to be unique, and everything addressed by letter or position must keep working."""

    name = "samename"
    exhaustive = True
    shards = {"quick": 4, "thorough": 8}

    SPEC = {
        "a": dict(name="Alpha", items=["a0", "a1"]),
        "r": dict(name="Region", items=["r0", "r1", "r2"]),
        "o": dict(name="Region", items=["o0"]),
        "t": dict(name="Time", items=[2000, 2001]),
    }

    def enumerate(self, tier):
        for order in subtuples("arot"):
            if "r" in order and "o" in order:
                yield {"order": order}

    def run(self, desc):
        order = list(desc["order"])
        mk_ = lambda l: fd.Dimension(letter=l, name=self.SPEC[l]["name"], items=list(self.SPEC[l]["items"]))
        fresh = lambda: fd.DimensionSet(dim_list=[mk_(l) for l in order])
        ds = fresh()
        shape = tuple(len(self.SPEC[l]["items"]) for l in order)
        require(tuple(ds.letters) == tuple(order) and tuple(ds.shape) == shape, "samename-basic", f"{ds.letters} {ds.shape}")
        for i, l in enumerate(order):
            require(ds.index(l) == i, "samename-index-by-letter", f"index('{l}') = {ds.index(l)} in {order}")
            require(ds[l].letter == l and ds[i].letter == l, "samename-lookup-by-letter", f"{l} in {order}")
            require(ds.size(l) == shape[i], "samename-size-by-letter", f"{l} in {order}")
            require(l in ds, "samename-membership", l)
            # drop / replace by letter, out of place and in place
            exp_drop = [x for x in order if x != l]
            require(list(ds.drop(l).letters) == exp_drop, "samename-drop", f"drop('{l}') of {order}: {ds.drop(l).letters}")
            d2 = fresh()
            d2.drop(l, inplace=True)
            require(list(d2.letters) == exp_drop, "samename-drop", f"in-place drop('{l}') of {order}: {d2.letters}")
            new = fd.Dimension(letter="g", name="Gimel", items=["g0"])
            exp_rep = [("g" if x == l else x) for x in order]
            exp_shape = tuple(1 if x == l else n for x, n in zip(order, shape))
            r1 = ds.replace(l, new)
            require(list(r1.letters) == exp_rep and tuple(r1.shape) == exp_shape, "samename-replace", f"replace('{l}') of {order}: {r1.letters} {r1.shape}")
            d3 = fresh()
            d3.replace(l, new, inplace=True)
            require(list(d3.letters) == exp_rep and tuple(d3.shape) == exp_shape, "samename-replace", f"in-place replace('{l}') of {order}: {d3.letters} {d3.shape}")
            require(list(ds.letters) == order, "samename-receiver-changed", f"after out-of-place drop/replace of {l}")
        for sub in subtuples("".join(order)):
            if not sub:
                continue
            got = ds.get_subset(tuple(sub))
            require(list(got.letters) == list(sub), "samename-get_subset", f"{sub} of {order}: {got.letters}")
            require(tuple(got.shape) == tuple(len(self.SPEC[l]["items"]) for l in sub), "samename-get_subset", f"shape of {sub}")
        other = fd.DimensionSet(dim_list=[mk_("o"), mk_("t")])
        require(list((ds & other).letters) == [l for l in order if l in "ot"], "samename-setop", "&")
        require(list((ds - other).letters) == [l for l in order if l not in "ot"], "samename-setop", "-")
        require(list((ds | other).letters) == order + [l for l in "ot" if l not in order], "samename-setop", "|")
        # an array over such a set: slicing by letter addresses the right axis
        import numpy as np

        arr = fd.FlodymArray(dims=ds, values=np.arange(float(np.prod(shape))).reshape(shape))
        for i, l in enumerate(order):
            it = self.SPEC[l]["items"][-1]
            sl = arr[{l: it}]
            require(list(sl.dims.letters) == [x for x in order if x != l], "samename-slice", f"{l} of {order}: {sl.dims.letters}")
            require(np.array_equal(sl.values, np.take(arr.values, shape[i] - 1, axis=i)), "samename-slice", f"values of arr[{{'{l}': ...}}] for {order}")
        return {"nontrivial": len(order) >= 3, "classes": [f"ndim:{len(order)}"]}


Prop(
    "C14",
    "exploration",
    "pairs: all 65x65 ordered sub-tuples of a 4-dimension alphabet as receiver x argument, every operator, "
    "named method and subset selection (exhaustive; non-trivial = partial overlap in different order). "
    "history: generated step lists over a pool of sets/arrays compared with an ordered-list model after every "
    "step (non-trivial = an in-place edit applied to a set that was returned by an out-of-place operation); "
    "samename: every ordered subset of {a, r, o, t} holding both r and o, two dimensions named 'Region': index / lookup / "
    "size / drop / replace / get_subset / set operators by letter and slicing of an array over the set (exhaustive). "
    "distinct = SHA-1 of the canonical case descriptor.",
    [Pairs(), History(), SameName()],
    assumptions=[
        "dimension identity is the letter (the library's own rule); dimensions with the same name but different letters occur in facet samename only, where everything is addressed by letter or position (a lookup by such a name is ambiguous and not asserted)",
        "replace() of a dimension by one with the same letter, and several added dimensions sharing a letter among themselves, are outside the statement",
    ],
)
