"""C03 - computed stocks conserve mass: stock change = net inflow x interval length."""
from __future__ import annotations

import numpy as np
from hypothesis import strategies as st

from vlib import build, gen, stockgen as sg
from vlib.build import fd
from vlib.runner import Discard, Facet, Prop, Violation, require


def observe(stock):
    return dict(
        stock=np.array(stock.stock.values, dtype=float),
        inflow=np.array(stock.inflow.values, dtype=float),
        outflow=np.array(stock.outflow.values, dtype=float),
    )


def guard_conditioning(cfg, stock):
    if cfg["cls"].startswith("sdsm"):
        if sg.first_interval_survival(stock) < 0.05:
            raise Discard("first-interval survival < 0.05")
        if sg.cond_inf(stock) > 1e8:
            raise Discard("ill-conditioned survival table")


def classes_of(cfg):
    cl = [f"cls:{cfg['cls']}", f"grid:{sg.grid_kind(cfg['grid'])}", f"extra:{len(cfg['extra'])}"]
    if "lt" in cfg:
        cl.append(f"lt:{cfg['lt']['cls']}")
        if sg.lt_varies(cfg["lt"]):
            cl.append("prm-varies")
        if cfg["lt"]["n_pts"] > 1:
            cl.append("quadrature")
    return cl


def run_case(desc):
    cfg = desc["cfg"]
    stock = sg.build_stock(cfg)
    guard_conditioning(cfg, stock)
    stock.compute()
    out = check_computed(desc, cfg, stock, "")
    if cfg.get("reprm") and cfg["cls"] != "simple":
        # same object, new lifetime parameters, recompute: the balance must hold again
        cfg2 = dict(cfg, lt=dict(cfg["lt"], prms=cfg["reprm"]))
        probe = sg.build_stock(cfg2)
        try:
            guard_conditioning(cfg2, probe)
        except Discard:
            return out
        U = sg.universe_of(cfg)
        if cfg["cls"].startswith("sdsm"):
            stock.stock.values[...] = sg.driver_array(cfg).values
        stock.lifetime_model.set_prms(**{k: sg.build_prm(U, p) for k, p in cfg["reprm"].items()})
        stock.compute()
        check_computed(desc, cfg2, stock, "after-set_prms-")
        out["classes"].append("recomputed-after-set_prms")
    return out


def check_computed(desc, cfg, stock, pre):
    o = observe(stock)
    dt = np.array(sg.documented_dt(cfg["grid"]))
    n = len(dt)
    shape1 = (n,) + (1,) * (o["stock"].ndim - 1)
    dtb = dt.reshape(shape1)
    require(np.all(np.isfinite(o["stock"])) and np.all(np.isfinite(o["inflow"])) and np.all(np.isfinite(o["outflow"])), "non-finite-result", cfg["cls"])
    scale = float(np.max(np.abs(o["stock"])) + np.max(dtb * (np.abs(o["inflow"]) + np.abs(o["outflow"]))))
    tol = 1e-9 * scale + 1e-290  # relative to the magnitudes involved (flows may be in any unit); floor for subnormals
    prev = np.concatenate([np.zeros_like(o["stock"][:1]), o["stock"][:-1]], axis=0)
    resid = o["stock"] - prev - dtb * (o["inflow"] - o["outflow"])
    worst = float(np.max(np.abs(resid)))
    gk = sg.grid_kind(cfg["grid"])
    kind = "simple" if cfg["cls"] == "simple" else "dsm"
    require(worst <= tol, f"{pre}mass-balance-{kind}-{gk}", f"max |stock(t)-stock(t-1)-dt*(in-out)| = {worst:.3g} (tol {tol:.2g}); grid {cfg['grid']}")
    # cumulative identity
    cum = np.cumsum(dtb * (o["inflow"] - o["outflow"]), axis=0)
    require(float(np.max(np.abs(cum - o["stock"]))) <= tol * n, f"{pre}mass-balance-{kind}-{gk}", "cumulative net inflow != stock")
    # the library's own self check
    try:
        stock.check_stock_balance()
    except Exception as e:
        raise Violation(f"{pre}check_stock_balance-rejects-correct-stock-{gk}", f"{type(e).__name__}: {str(e)[:120]}; grid {cfg['grid']}")
    bal = np.asarray(stock.get_stock_balance(), dtype=float)
    btol = 1e-8 * scale / min(1.0, float(np.min(dt))) + 1e-290
    require(float(np.max(np.abs(bal))) <= btol, f"{pre}get_stock_balance-nonzero-{gk}", f"max |balance| = {float(np.max(np.abs(bal))):.3g}; grid {cfg['grid']}")
    # perturbed stock must be rejected
    idx = np.unravel_index(desc["perturb"] % o["stock"].size, o["stock"].shape)
    stock.stock.values[idx] += 2 * float(np.max(dt)) + 2
    try:
        stock.check_stock_balance()
    except Exception:
        pass
    else:
        raise Violation("check_stock_balance-accepts-perturbed-stock", f"entry {idx} raised by {2 * float(np.max(dt)) + 2}")
    cl = classes_of(cfg) + [f"scale:{cfg.get('scale', 1.0):g}"]
    nontrivial = gk != "unit" or (cfg["cls"] != "simple" and n >= 2 and float(np.max(np.abs(o["outflow"]))) > 0)
    return {"nontrivial": nontrivial, "classes": cl}


class Balance(Facet):
    name = "balance"
    examples = {"quick": 12000, "thorough": 360000}
    shards = {"quick": 16, "thorough": 16}

    def strategy(self, tier):
        return st.fixed_dictionaries({"cfg": sg.stock_configs(max_n=8 if tier == "quick" else 14, signed=True, long_grid=12), "perturb": st.integers(0, 10**6)})

    def run(self, desc):
        return run_case(desc)


Prop(
    "C03",
    "exploration",
    "Generated stock configurations: time grid (3-8, thorough 14 items; unit / constant non-unit / uneven; int or float "
    "items; any offset) x 0-2 extra dims x class (flow-driven, inflow-driven DSM, stock-driven DSM manual/lapack) x lifetime "
    "model (5 classes; scalar / per-label / per-cohort parameters; inflow_at; 1-10 quadrature points) x driver values. "
    "Oracle: stock(t)-stock(t-1) = dt(t)(inflow(t)-outflow(t)) per label with dt from the documented mid-point rule, "
    "tolerance 1e-9 x magnitude; check_stock_balance must accept the computed stock and reject it after one entry is "
    "raised by 2 max(dt)+2. Non-trivial = non-unit grid, or DSM with non-zero outflow.",
    [Balance()],
    assumptions=[
        "stock-driven cases with first-interval survival < 0.05 or cond_inf(sf) > 1e8 are discarded (counted)",
        "dt recomputed from howto 06: interior (t[i+1]-t[i-1])/2, ends copy their neighbour",
    ],
)
