"""C10 - inflow-driven and stock-driven models are inverse; both solvers agree."""
from __future__ import annotations

import numpy as np
from hypothesis import strategies as st

from props.c03_balance import classes_of
from vlib import stockgen as sg
from vlib.build import fd
from vlib.runner import Discard, Facet, Prop, Violation, require


def tables(stock):
    return dict(
        stock=np.array(stock.stock.values, float),
        inflow=np.array(stock.inflow.values, float),
        outflow=np.array(stock.outflow.values, float),
        sbc=np.array(stock.get_stock_by_cohort(), float),
        obc=np.array(stock.get_outflow_by_cohort(), float),
    )


def run_case(desc):
    out = run_once(desc, dict(desc["cfg"]), None)
    cfg = dict(desc["cfg"])
    if cfg.get("reprm") and desc.get("shared_model"):
        # the same LifetimeModel object is re-parameterised and used for another round trip
        U = sg.universe_of(cfg)
        shared = sg.build_lifetime(U, cfg["lt"])
        first = sg.build_stock(dict(cfg, cls="sdsm_manual"), lifetime=shared)
        if sg.first_interval_survival(first) >= 0.05 and sg.cond_inf(first) <= 1e8:
            first.compute()
            shared.set_prms(**{k: sg.build_prm(U, p) for k, p in cfg["reprm"].items()})
            cfg2 = dict(cfg, lt=dict(cfg["lt"], prms=cfg["reprm"]))
            cfg2.pop("reprm", None)
            try:
                run_once(dict(desc, shared_model=True), cfg2, shared)
                out["classes"].append("re-parameterised-shared-model")
            except Discard:
                pass
    return out


def run_once(desc, cfg, preset_shared):
    direction = desc["direction"]
    gk = sg.grid_kind(cfg["grid"])
    dt = np.array(sg.documented_dt(cfg["grid"]))
    probe = sg.build_stock(dict(cfg, cls="idsm"))
    if sg.first_interval_survival(probe) < 0.05:
        raise Discard("first-interval survival < 0.05")
    cond = sg.cond_inf(probe)
    if cond > 1e8:
        raise Discard("ill-conditioned survival table")
    eps = np.finfo(float).eps
    cl = classes_of(dict(cfg, cls=direction)) + [f"direction:{direction}"]

    def tol_for(scale):
        return (64 * eps * cond + 1e-11) * scale + 1e-290

    if direction == "forward":
        drv = np.abs(sg.driver_values(cfg))  # non-negative inflow
        # "with the same lifetime model": optionally one shared LifetimeModel object for all three stocks
        shared = preset_shared if preset_shared is not None else (sg.build_lifetime(sg.universe_of(cfg), cfg["lt"]) if desc.get("shared_model") else None)
        if shared is not None:
            cl.append("shared-lifetime-model-object")
        a = sg.build_stock(dict(cfg, cls="idsm"), driver=drv, lifetime=shared)
        a.compute()
        ta = tables(a)
        scale = float(np.max(np.abs(ta["stock"])) + np.max(np.abs(ta["inflow"])) * float(np.max(dt)))
        for solver in ("manual", "lapack"):
            b = sg.build_stock(dict(cfg, cls=f"sdsm_{solver}"), driver=ta["stock"], lifetime=shared)
            b.compute()
            tb = tables(b)
            d = float(np.max(np.abs(tb["stock"] - ta["stock"])))
            require(d <= tol_for(scale), "stock-driven-model-altered-prescribed-stock", f"{solver}: max diff {d:.3g}")
            for k in ("inflow", "outflow", "sbc", "obc"):
                s_k = scale / float(np.min(dt)) if k in ("inflow", "outflow", "obc") else scale
                d = float(np.max(np.abs(ta[k] - tb[k])))
                require(d <= tol_for(s_k), f"roundtrip-idsm-sdsm-{k}-{gk}", f"{solver}: max diff {d:.3g} (tol {tol_for(s_k):.2g}); grid {cfg['grid']}")
        nontrivial = gk != "unit" or sg.lt_varies(cfg["lt"])
    else:
        res = {}
        shared = preset_shared if preset_shared is not None else (sg.build_lifetime(sg.universe_of(cfg), cfg["lt"]) if desc.get("shared_model") else None)
        if shared is not None:
            cl.append("shared-lifetime-model-object")
        prescribed = sg.driver_values(cfg)
        for solver in ("manual", "lapack"):
            b = sg.build_stock(dict(cfg, cls=f"sdsm_{solver}"), lifetime=shared)
            b.compute()
            res[solver] = tables(b)
            d = float(np.max(np.abs(res[solver]["stock"].reshape(-1) - prescribed)))
            require(d == 0.0, "stock-driven-model-altered-prescribed-stock", f"{solver}: max diff {d:.3g}")
            require(all(np.all(np.isfinite(v)) for v in res[solver].values()), "non-finite-result", solver)
        scale = float(np.max(np.abs(res["manual"]["stock"])) + np.max(np.abs(res["manual"]["inflow"])) * float(np.max(dt)))
        for k in ("inflow", "outflow", "sbc", "obc"):
            s_k = scale / float(np.min(dt)) if k in ("inflow", "outflow", "obc") else scale
            d = float(np.max(np.abs(res["manual"][k] - res["lapack"][k])))
            require(d <= tol_for(s_k), f"solvers-disagree-{k}", f"max diff {d:.3g} (tol {tol_for(s_k):.2g})")
        a = sg.build_stock(dict(cfg, cls="idsm"), driver=res["manual"]["inflow"], lifetime=shared)
        a.compute()
        ta = tables(a)
        d = float(np.max(np.abs(ta["stock"] - res["manual"]["stock"])))
        require(d <= tol_for(scale), f"roundtrip-sdsm-idsm-stock-{gk}", f"max diff {d:.3g}; grid {cfg['grid']}")
        for k in ("outflow", "sbc", "obc"):
            s_k = scale / float(np.min(dt)) if k in ("outflow", "obc") else scale
            d = float(np.max(np.abs(ta[k] - res["manual"][k])))
            require(d <= tol_for(s_k), f"roundtrip-sdsm-idsm-{k}-{gk}", f"max diff {d:.3g}; grid {cfg['grid']}")
        neg = bool(np.any(res["manual"]["inflow"] < 0))
        if neg:
            cl.append("implies-negative-inflow")
        nontrivial = gk != "unit" or sg.lt_varies(cfg["lt"]) or neg
    return {"nontrivial": nontrivial, "classes": cl}


class RoundTrip(Facet):
    name = "roundtrip"
    examples = {"quick": 5000, "thorough": 300000}
    shards = {"quick": 16, "thorough": 16}

    def strategy(self, tier):
        return st.fixed_dictionaries(
            {
                "cfg": sg.stock_configs(classes=("idsm",), max_n=8 if tier == "quick" else 12, well_conditioned=True, signed=True, long_grid=12),
                "direction": st.sampled_from(["forward", "backward"]),
                "shared_model": st.booleans(),
            }
        )

    def run(self, desc):
        return run_case(desc)


# ------------------------------------------------------------------------------ large models


class Large(Facet):
    """A short exhaustive list of LARGE models (survival tables of 6 ... 130 MiB; quick tier: 6 and 34 MiB, item counts that are prime or odd):
    size thresholds of blocked / batched solvers are out of reach of the small generated configurations."""

    name = "large"
    exhaustive = True
    shards = {"quick": 4, "thorough": 8}

    def enumerate(self, tier):
        sizes = [(40, [467]), (80, [9, 73])] if tier == "quick" else [
            (40, [467]), (80, [9, 73]), (200, [211]), (60, [7, 11, 13]), (128, [1031]), (300, [37]), (25, [10007]), (90, [3, 5, 127]), (500, [53])]
        for n_t, extra in sizes:
            for uneven in (False, True):
                yield {"n_t": n_t, "extra": extra, "uneven": uneven}

    def run(self, desc):
        n_t, extra = desc["n_t"], list(desc["extra"])
        years = [2000 + i for i in range(n_t)]
        if desc["uneven"]:
            years = [2000 + i + (i // 7) for i in range(n_t)]  # a gap after every seventh year
        dl = [fd.Dimension(letter="t", name="Time", items=years, dtype=int)]
        for k, n in enumerate(extra):
            dl.append(fd.Dimension(letter="abc"[k], name=["Alpha", "Beta dim", "Gamma"][k], items=[f"{'abc'[k]}{i}" for i in range(n)]))
        dims = fd.DimensionSet(dim_list=dl)
        shape = tuple(dims.shape)
        n_items = int(np.prod(shape[1:]))
        idx = np.arange(n_items).reshape(shape[1:])
        mean = fd.FlodymArray(dims=dims.get_subset(tuple(d.letter for d in dl[1:])), values=6.0 + (idx % 11) * 0.7)
        std = fd.FlodymArray(dims=mean.dims, values=1.5 + (idx % 5) * 0.3)
        tt = np.arange(n_t).reshape((n_t,) + (1,) * len(extra))
        inflow = 1.0 + ((tt * 7 + idx[None, ...] * 13) % 17) + 0.25 * np.sin(tt + idx[None, ...])
        lm = lambda: fd.LogNormalLifetime(dims=dims, mean=mean, std=std)
        a = fd.InflowDrivenDSM(dims=dims, inflow=fd.StockArray(dims=dims, values=inflow.copy()), lifetime_model=lm(), name="s")
        a.compute()
        res = {}
        for solver in ("manual", "lapack"):
            b = fd.StockDrivenDSM(dims=dims, stock=fd.StockArray(dims=dims, values=np.array(a.stock.values)), lifetime_model=lm(), solver=solver, name="s")
            b.compute()
            res[solver] = b
            scale = float(np.max(np.abs(inflow)))
            d = float(np.max(np.abs(b.inflow.values - inflow)))
            require(d <= 1e-8 * scale, "large-roundtrip-inflow", f"{solver}: recovered inflow deviates by {d:.3g} (n_t {n_t}, items {extra}, survival table {n_t * n_t * n_items * 8 / 2**20:.0f} MiB)")
            d = float(np.max(np.abs(b.outflow.values - a.outflow.values)))
            require(d <= 1e-8 * scale, "large-roundtrip-outflow", f"{solver}: outflow deviates by {d:.3g} (n_t {n_t}, items {extra})")
            d = float(np.max(np.abs(b.get_stock_by_cohort().sum(axis=1) - a.stock.values)))
            require(d <= 1e-8 * float(np.max(np.abs(a.stock.values))), "large-cohorts-do-not-add-up", f"{solver}: {d:.3g}")
        d = float(np.max(np.abs(res["manual"].inflow.values - res["lapack"].inflow.values)))
        require(d <= 1e-8 * scale, "large-solvers-disagree", f"inflow differs by {d:.3g} (n_t {n_t}, items {extra})")
        mib = n_t * n_t * n_items * 8 / 2**20
        return {"nontrivial": True, "classes": [f"survival-table:{'<16' if mib < 16 else '<64' if mib < 64 else '>=64'}MiB", "uneven" if desc["uneven"] else "unit"]}


Prop(
    "C10",
    "exploration",
    "Stock configurations as C03 with well-conditioned lifetimes. forward: non-negative inflow -> inflow-driven model -> its "
    "stock into a stock-driven model (both solvers) with the same lifetime model; inflow, outflow and both cohort tables must "
    "match. backward: arbitrary stock (also implying negative inflow) -> stock-driven model (manual and lapack must agree) -> "
    "its inflow into an inflow-driven model; stock, outflow and cohort tables must match. Tolerance (64 eps cond_inf(sf) + 1e-11) "
    "x magnitude. Non-trivial = non-unit grid, per-label/per-cohort parameters, or a stock implying negative inflow. "
    "large: a short exhaustive list of big models (survival tables of 6-130 MiB, prime / odd item counts, unit and uneven grids): "
    "inflow-driven -> stock-driven with both solvers, inflow / outflow recovered to 1e-8, solvers agree.",
    [RoundTrip(), Large()],
    assumptions=["cases with first-interval survival < 0.05 or cond_inf(sf) > 1e8 are discarded (counted): the property excludes vanishing diagonals"],
)
