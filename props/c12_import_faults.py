"""C12 - data import refuses incomplete or inconsistent data unless told otherwise (fault enumeration).

A correct frame is rendered from logical records, then faults are injected at generated positions
(facet ``faults``) or at EVERY position (facet ``single``, exhaustive per frame): drop a row,
duplicate a row, relabel a cell to an unknown item, blank a value, drop a dimension column, add
junk value columns, relabel / drop a wide column; all four flag combinations; entry points
from_df, set_values_from_df (target with prior content), CSV and Excel parameter readers.
Oracle: a contract model of the flags, written from the statement.
"""
from __future__ import annotations

import itertools
import os
import tempfile

import numpy as np
import pandas as pd
from hypothesis import strategies as st

from vlib import build, frames, gen
from vlib.build import fd
from vlib.model import MArr
from vlib.runner import Discard, Facet, Prop, Violation, require

UNKNOWN = {"str": "zz_unknown", "int": 987654, None: "zz_unknown"}


def coded_value(U, letters):
    f = build.value_fn(U, {"letters": letters, "mode": "coded", "tag": "x"})
    return lambda lab: f(lab)


def apply_faults(U, letters, layout, faults, infs=(), offset=0.0):
    """-> (records, render kwargs, structural_error: bool, notes)"""
    wide = layout.get("wide")
    vf0 = coded_value(U, letters)
    vf = (lambda lab: vf0(lab) + offset) if offset else vf0
    recs = frames.full_records(U, letters, vf)
    for pos, sign in infs:
        # infinite entries are values like any other (not a fault): they must arrive unchanged under their labels
        k = pos % len(recs)
        recs[k] = (recs[k][0], float("inf") if sign > 0 else float("-inf"))
    items = build.uitems(U)
    kw = {"extra_columns": {}, "dropped_dim_columns": [], "wide_header_map": {}}
    lay = dict(layout)
    structural = False
    unasserted = False
    # rows of the frame: long = records; wide = groups of records sharing the non-wide labels
    if wide is None:
        rows = [[r] for r in recs]
    else:
        groups = {}
        for lab, v in recs:
            groups.setdefault(tuple(lab[l] for l in letters if l != wide), []).append((lab, v))
        rows = list(groups.values())
    rowids = list(range(len(rows)))
    next_id = len(rows)
    for f in faults:
        k = f["kind"]
        if not rows and k in ("drop_row", "dup_row", "relabel", "blank", "blank_label", "relabel_known", "swap_labels"):
            continue
        i = f["pos"] % max(1, len(rows))
        if k == "drop_row":
            rows.pop(i)
            rowids.pop(i)
        elif k == "dup_row":
            j = f["pos2"] % (len(rows) + 1)
            copy_ = [(dict(lab), (v if not f.get("other_value") else (v or 0) + 1.0)) for lab, v in rows[i]]
            rows.insert(j, copy_)
            rowids.insert(j, next_id)
            next_id += 1
        elif k == "relabel":
            cand = [l for l in letters if l != wide and l not in lay.get("drop_single", [])]
            if not cand:
                continue
            l = cand[f["dim"] % len(cand)]
            unk = UNKNOWN[build.udim(U, l).get("dtype")] if build.udim(U, l).get("dtype") else ("zz_unknown" if isinstance(items[l][0], str) else 987654)
            rows[i] = [(dict(lab, **{l: unk}), v) for lab, v in rows[i]]
        elif k in ("relabel_known", "swap_labels"):
            # a cell gets ANOTHER KNOWN item (typo that is still a valid label), or two rows exchange one label:
            # row count and per-column item counts can stay balanced while label combinations collide
            cand = [l for l in letters if l != wide and l not in lay.get("drop_single", []) and len(items[l]) > 1]
            if not cand:
                continue
            l = cand[f["dim"] % len(cand)]
            if k == "relabel_known":
                if not rows[i]:
                    continue
                cur = rows[i][0][0][l]
                others = [it for it in items[l] if it != cur]
                if cur not in items[l]:
                    continue
                new = others[f["pos2"] % len(others)]
                rows[i] = [(dict(lab, **{l: new}), v) for lab, v in rows[i]]
            else:
                j = f["pos2"] % len(rows)
                if not rows[i] or not rows[j]:
                    continue
                a, b = rows[i][0][0][l], rows[j][0][0][l]
                rows[i] = [(dict(lab, **{l: b}), v) for lab, v in rows[i]]
                rows[j] = [(dict(lab, **{l: a}), v) for lab, v in rows[j]] if j != i else rows[i]
        elif k == "blank_label":
            # an empty cell in a DIMENSION column: a label that is no item of the dimension
            cand = [l for l in letters if l != wide and l not in lay.get("drop_single", [])]
            if not cand or not rows[i]:
                continue
            l = cand[f["dim"] % len(cand)]
            rows[i] = [(dict(lab, **{l: None}), v) for lab, v in rows[i]]
        elif k == "blank":
            if not rows[i]:
                continue
            c = f["dim"] % len(rows[i])
            lab, v = rows[i][c]
            rows[i][c] = (lab, None)
        elif k == "drop_dimcol":
            cand = [l for l in letters if l != wide and l not in lay.get("drop_single", [])]
            if not cand:
                continue
            l = cand[f["dim"] % len(cand)]
            kw["dropped_dim_columns"].append(l)
            if len(items[l]) > 1:
                structural = True
        elif k == "junk_cols":
            kw["extra_columns"]["junk one"] = [1.5, 2.5]
            if wide is None or True:
                kw["extra_columns"]["junk two"] = [7.0]
            structural = True
        elif k == "wide_relabel":
            if wide is None or len(items[wide]) < 2:
                continue
            it = items[wide][f["dim"] % len(items[wide])]
            kw["wide_header_map"][it] = UNKNOWN["str"] if isinstance(it, str) else 987654
            structural = True
        elif k == "wide_drop":
            if wide is None or len(items[wide]) < 2:
                continue
            it = items[wide][f["dim"] % len(items[wide])]
            lay.setdefault("wide_dropped", []).append(it)
            rows = [[(lab, v) for lab, v in row if lab[wide] != it] for row in rows]
            unasserted = True  # contract silent under allow_missing_values; must raise by default
    out = []
    for rid, row in zip(rowids, rows):
        for lab, v in row:
            lab = dict(lab)
            for l in list(kw["dropped_dim_columns"]) + list(lay.get("drop_single", [])):
                if len(items[l]) == 1:
                    lab[l] = items[l][0]  # a left-out single-item dimension is implied
            if wide is not None:
                lab["__row__"] = rid
            out.append((lab, v))
    return out, lay, kw, structural, unasserted


def contract(U, letters, records, structural, allow_missing, allow_extra):
    """-> ('error', why) | ('ok', {label-key: value}) | ('unasserted', why)"""
    items = build.uitems(U)
    if structural:
        return "error", "structural fault"
    known, extra = [], []
    for lab, v in records:
        (known if all(lab[l] in items[l] for l in letters) else extra).append((lab, v))
    if extra and not allow_extra:
        return "error", "unknown item"
    seen = {}
    dup = False
    for lab, v in known:
        key = tuple(lab[l] for l in letters)
        if key in seen:
            dup = True
        seen[key] = v
    if dup:
        return "error", "duplicate label combination"
    if extra:
        ekeys = [tuple(lab[l] for l in letters) for lab, _ in extra]
        if len(set(ekeys)) != len(ekeys):
            return "unasserted", "duplicates among ignored rows"
    total = 1
    for l in letters:
        total *= len(items[l])
    missing = total - len(seen)
    blanks = sum(1 for v in seen.values() if v is None)
    if (missing or blanks) and not allow_missing:
        return "error", "missing or empty entries"
    return "ok", {k: (0.0 if v is None else float(v)) for k, v in seen.items()}


def call_import(desc, U, letters, df, tmp):
    """-> (result FlodymArray or None, exception or None, target snapshot check)"""
    ep = desc["entry"]
    am, ae = desc["allow_missing"], desc["allow_extra"]
    dims = build.dimset(U, letters)
    if ep == "from_df":
        try:
            return fd.FlodymArray.from_df(dims=dims, df=df, allow_missing_values=am, allow_extra_values=ae), None
        except Exception as e:
            return None, e
    if ep == "set_values_from_df":
        prior = np.full(dims.shape, -4.25)
        if desc.get("target_dtype"):
            # the array being filled holds placeholders of another storage type (np.arange, ones(dtype=int), float32);
            # what it holds after the import are the table's values (here all of the form k + 0.25)
            prior = np.full(dims.shape, -4).astype(desc["target_dtype"])
        tgt = fd.Parameter(dims=dims, values=prior.copy(), name="prior")
        snap = build.snapshot(tgt)
        try:
            tgt.set_values_from_df(df, allow_missing_values=am, allow_extra_values=ae)
        except Exception as e:
            if build.snapshot(tgt) != snap:
                raise Violation("failed-import-left-partial-array", f"set_values_from_df raised {type(e).__name__} but the target changed")
            return None, e
        return tgt, None
    if ep == "csv":
        path = os.path.join(tmp, "p.csv")
        has_index = any(n is not None for n in df.index.names)
        df.to_csv(path, index=has_index)
        reader = fd.CSVParameterReader(parameter_files={"p": path}, allow_missing_values=am, allow_extra_values=ae)
    else:
        path = os.path.join(tmp, "p.xlsx")
        has_index = any(n is not None for n in df.index.names)
        df.to_excel(path, index=has_index, sheet_name="data", merge_cells=False)
        reader = fd.ExcelParameterReader(parameter_files={"p": path}, parameter_sheets={"p": "data"}, allow_missing_values=am, allow_extra_values=ae)
    try:
        return reader.read_parameter_values("p", dims), None
    except Exception as e:
        return None, e


def fault_classes(desc):
    kinds = sorted({f["kind"] for f in desc["faults"]})
    cl = [f"fault:{k}" for k in kinds] or ["fault:none"]
    cl.append(f"flags:{'M' if desc['allow_missing'] else '-'}{'E' if desc['allow_extra'] else '-'}")
    cl.append(f"entry:{desc['entry']}")
    cl.append("wide" if desc["layout"].get("wide") else "long")
    return cl


def run_fault_case(desc, weak_only=False):
    U, letters, layout = desc["universe"], desc["letters"], desc["layout"]
    infs = [tuple(i) for i in desc.get("infs", [])] if desc.get("entry") != "excel" else []
    records, lay, kw, structural, unasserted = apply_faults(U, letters, layout, desc["faults"], infs, 0.25 if desc.get("target_dtype") else 0.0)
    if not records:
        raise Discard("empty frame")
    df = frames.render(U, letters, records, lay, **kw)
    if desc.get("dup_index") and not any(n is not None for n in df.index.names) and len(df) >= 2:
        # a table glued together from parts without ignore_index: the integer row labels repeat
        k_ = max(1, len(df) // 2)
        df.index = list(range(k_)) + list(range(len(df) - k_))
    noheader = bool(desc.get("noheader"))
    if noheader:
        # a table without a header line, read the default way: the first data row ends up as the column names
        if records[0][1] is None:
            raise Discard("first row has an empty value: no usable column name")
        if records[0][0][letters[0]] not in build.uitems(U)[letters[0]]:
            raise Discard("first row starts with something that is no item: it IS a header line")
        with tempfile.TemporaryDirectory(prefix="verif_c12_") as tmp0:
            df, _ = frames.through_csv(df, tmp0, header=False)
    df_before = df.copy(deep=True)
    am, ae = desc["allow_missing"], desc["allow_extra"]
    verdict, detail = contract(U, letters, [(l, v) for l, v in records], structural, am, ae)
    if noheader and verdict == "ok":
        # dimensions are identified through their items only: the acceptance side is asserted when every
        # column (first row included) holds exactly the dimension's items; refusals are asserted always
        its = build.uitems(U)
        if not all({lab[l] for lab, _ in records} == set(its[l]) for l in letters):
            verdict, detail = "unasserted", "item-identified column does not hold exactly the dimension's items"
    if ae and any(lab.get(l) is None for lab, _ in records for l in letters):
        # an empty label is "unknown to the dimension"; whether allow_extra_values lets such a row pass is not stated
        verdict, detail = "unasserted", "empty label cell under allow_extra_values"
    if unasserted and am:
        verdict, detail = "unasserted", "dropped item column of a wide frame under allow_missing_values"
    elif unasserted:
        verdict, detail = "error", "missing item column"
    if desc["entry"] in ("csv", "excel"):
        flat = df.reset_index() if any(n is not None for n in df.index.names) else df
        if len(flat.columns) == 0 or flat.isna().all(axis=1).any():
            raise Discard("a completely empty row cannot be represented in a CSV/Excel file")
    with tempfile.TemporaryDirectory(prefix="verif_c12_") as tmp:
        res, err = call_import(desc, U, letters, df, tmp)
    if not (df.equals(df_before) and list(df.columns) == list(df_before.columns) and df.index.equals(df_before.index)):
        raise Violation("import-modified-input-frame", f"columns {list(df_before.columns)} -> {list(df.columns)}")
    cl = fault_classes(desc) + [f"expect:{verdict}"] + (["has-infinite-entries"] if infs else []) + (["repeated-row-labels"] if desc.get("dup_index") else []) + (["no-header-line"] if noheader else [])
    if noheader and any(f["kind"] == "dup_row" and f["pos"] % max(1, len(records)) == 0 for f in desc["faults"]):
        cl.append("no-header-line:first-row-duplicated")
    ctx = f"faults {[(f['kind'], f['pos']) for f in desc['faults']]} flags missing={am} extra={ae} entry={desc['entry']} layout wide={layout.get('wide')} index={layout.get('index')} dims {letters}"
    items = build.uitems(U)
    # weak clause of C11: whatever is returned, every non-zero entry comes from the unique row with those labels
    if res is not None:
        require(tuple(res.values.shape) == tuple(res.dims.shape), "import-result-shape", ctx)
        got = MArr.from_flodym(res)
        rows_by_key = {}
        for lab, v in records:
            if all(lab.get(l) in items[l] for l in letters):
                rows_by_key.setdefault(tuple(lab[l] for l in letters), []).append(v)
        for key, v in got.data.items():
            if v != 0 and not (v != v):
                src = rows_by_key.get(key, [])
                if not (len(src) == 1 and src[0] is not None and float(src[0]) == v):
                    raise Violation("import-entry-not-from-its-row", f"entry {key} = {v} but rows with these labels hold {src}; {ctx}")
    if weak_only:
        return {"nontrivial": bool(desc["faults"]) and res is not None, "classes": cl}
    if verdict == "unasserted":
        return {"nontrivial": False, "classes": cl}
    if verdict == "error":
        if res is not None:
            raise Violation(f"accepted-faulty-data-{detail.replace(' ', '-')}", ctx)
    else:
        if err is not None:
            from vlib.runner import classify_exception

            raise Violation(f"rejected-acceptable-data", f"{type(err).__name__}: {str(err)[:160]}; {ctx}")
        for key in itertools.product(*[items[l] for l in letters]):
            exp = detail.get(key, 0.0)
            g = got.data[key]
            require(g == exp, "imported-entry-wrong", f"entry {key}: got {g}, expected {exp}; {ctx}")
    pos_late = any(f["pos"] % 10**6 >= 2 for f in desc["faults"])
    return {"nontrivial": bool(desc["faults"]) and (pos_late or bool(layout.get("wide")) or len(desc["faults"]) >= 2), "classes": cl}


FAULT_KINDS = ["drop_row", "dup_row", "relabel", "blank", "drop_dimcol", "junk_cols", "wide_relabel", "wide_drop", "relabel_known", "swap_labels", "blank_label", "blank_label"]


@st.composite
def base_frames(draw, max_dims=3, max_len=3, header_styles=("name", "letter"), kinds=("str", "int", "ustr")):
    U = draw(gen.universes(min_dims=1, max_dims=max_dims, max_len=max_len, kinds=kinds))
    letters = list(draw(st.permutations(gen.uletters(U))))
    multi = [l for l in letters]
    wide = None
    if len(letters) >= 2 and draw(st.booleans()):
        wide = draw(st.sampled_from(letters))
        d = build.udim(U, wide)
        if d.get("dtype") is None and all(isinstance(i, int) for i in d["items"]):
            wide = None
    rest = [l for l in letters if l != wide]
    layout = {
        "wide": wide,
        "index": draw(gen.ordered_subtuple(rest)),
        "header": {l: draw(st.sampled_from(list(header_styles))) for l in letters},
        "value_col": draw(st.sampled_from(["value", "value", "Amount (t)", "v"])) if wide is None else "value",
        "col_order": draw(st.one_of(st.none(), st.lists(st.integers(0, 6), min_size=2, max_size=5))),
        "drop_single": [l for l in rest if len(build.udim(U, l)["items"]) == 1 and draw(st.booleans())],
    }
    return U, letters, layout


@st.composite
def fault_cases(draw, max_faults=2):
    noheader = draw(st.integers(0, 7)) == 0
    if noheader:
        # long table without a header line; row-level faults only, the first row being the interesting one
        U = draw(gen.universes(min_dims=1, max_dims=3, max_len=3, kinds=("str", "int")))
        letters = list(draw(st.permutations(gen.uletters(U))))
        layout = {"wide": None, "index": [], "header": {l: "junk" for l in letters}, "value_col": "value", "col_order": None, "drop_single": []}
        pool = ["dup_row", "dup_row", "dup_row", "drop_row", "drop_row", "blank", "relabel", "relabel_known", "swap_labels"]
    else:
        U, letters, layout = draw(base_frames())
        pool = FAULT_KINDS + ["drop_row", "drop_row", "dup_row", "dup_row", "relabel", "blank"]
    n = draw(st.integers(0, max_faults))
    faults = []
    for _ in range(n):
        k = draw(st.sampled_from(pool))
        pos = draw(st.integers(0, 40))
        if noheader and k == "dup_row" and draw(st.booleans()):
            pos = 0
        faults.append({"kind": k, "pos": pos, "pos2": draw(st.integers(0, 40)), "dim": draw(st.integers(0, 5)), "other_value": draw(st.booleans())})
    if noheader:
        return {
            "universe": U,
            "letters": letters,
            "layout": layout,
            "faults": faults,
            "allow_missing": draw(st.booleans()),
            "allow_extra": draw(st.booleans()),
            "entry": draw(st.sampled_from(["from_df", "set_values_from_df", "csv", "excel"])),
            "dup_index": False,
            "noheader": True,
        }
    infs = [[draw(st.integers(0, 40)), draw(st.sampled_from([1, -1, -1]))] for _ in range(draw(st.sampled_from([0, 0, 0, 1, 2])))]
    return {
        "infs": infs,
        "target_dtype": draw(st.sampled_from([None, None, None, "int64", "float32", "int32"])),
        "universe": U,
        "letters": letters,
        "layout": layout,
        "faults": faults,
        "allow_missing": draw(st.booleans()),
        "allow_extra": draw(st.booleans()),
        "entry": draw(st.sampled_from(["from_df", "from_df", "set_values_from_df", "set_values_from_df", "csv", "excel"])),
        "dup_index": draw(st.booleans()),
    }


class Faults(Facet):
    name = "faults"
    examples = {"quick": 6000, "thorough": 160000}
    shards = {"quick": 16, "thorough": 16}

    def strategy(self, tier):
        return fault_cases(max_faults=4)

    def run(self, desc):
        return run_fault_case(desc)


class Single(Facet):
    """Every single fault at EVERY position of a set of frames (<= 24 rows), all four flag
    combinations, from_df and set_values_from_df."""

    name = "single"
    exhaustive = True
    shards = {"quick": 16, "thorough": 16}

    def enumerate(self, tier):
        shapes = [([2, 3], ["str", "int"]), ([3, 1, 2], ["int", "str", "ustr"])]
        if tier == "thorough":
            shapes += [([2, 2, 2], ["str", "str", "int"]), ([4, 3], ["ustr", "int"]), ([2, 3, 4], ["int", "str", "str"])]
        for lens, kinds in shapes:
            letters = list("abc"[: len(lens)])
            U = {"dims": [{"letter": l, "name": gen.NAMES[l], "items": gen.items_for(l, k, n, kd), "dtype": gen.kind_dtype(kd)} for k, (l, n, kd) in enumerate(zip(letters, lens, kinds))]}
            layouts = [
                {"wide": None, "index": [], "header": {l: "name" for l in letters}, "value_col": "value"},
                {"wide": letters[-1], "index": [letters[0]], "header": {l: "letter" for l in letters}, "value_col": "value"},
            ]
            if tier == "thorough":
                layouts.append({"wide": letters[0], "index": [], "header": {l: "name" for l in letters}, "value_col": "value", "col_order": [2, 0, 1]})
                layouts.append({"wide": None, "index": letters[:1], "header": {l: "letter" for l in letters}, "value_col": "qty"})
            for lay in layouts:
                nrows = int(np.prod(lens)) if lay["wide"] is None else int(np.prod(lens)) // lens[letters.index(lay["wide"])]
                ncell = 1 if lay["wide"] is None else lens[letters.index(lay["wide"])]
                single_faults = []
                for pos in range(nrows):
                    single_faults.append({"kind": "drop_row", "pos": pos})
                    for pos2 in (0, nrows):
                        single_faults.append({"kind": "dup_row", "pos": pos, "pos2": pos2, "other_value": bool(pos % 2)})
                    for dim in range(len(letters) - (1 if lay["wide"] else 0)):
                        single_faults.append({"kind": "relabel", "pos": pos, "dim": dim})
                        single_faults.append({"kind": "relabel_known", "pos": pos, "dim": dim, "pos2": pos % 2})
                        single_faults.append({"kind": "swap_labels", "pos": pos, "dim": dim, "pos2": (pos + 1 + dim) % nrows})
                    for c in range(ncell):
                        single_faults.append({"kind": "blank", "pos": pos, "dim": c})
                for dim in range(len(letters)):
                    single_faults.append({"kind": "drop_dimcol", "pos": 0, "dim": dim})
                    single_faults.append({"kind": "wide_relabel", "pos": 0, "dim": dim})
                    single_faults.append({"kind": "wide_drop", "pos": 0, "dim": dim})
                single_faults.append({"kind": "junk_cols", "pos": 0})
                for f in single_faults:
                    f.setdefault("pos2", 0)
                    f.setdefault("dim", 0)
                    for am in (False, True):
                        for ae in (False, True):
                            for entry in ("from_df", "set_values_from_df"):
                                yield {"universe": U, "letters": letters, "layout": lay, "faults": [f], "allow_missing": am, "allow_extra": ae, "entry": entry}

    def run(self, desc):
        return run_fault_case(desc)


class Combos(Facet):
    """All ordered pairs and triples of row-level faults (drop / duplicate / relabel / blank) at three positions
    each on one long frame, x 4 flag combinations (exhaustive): combined faults must not mask each other."""

    name = "combos"
    exhaustive = True
    shards = {"quick": 16, "thorough": 16}

    def enumerate(self, tier):
        import itertools as it

        letters = ["a", "b"]
        lens, kinds = ([3, 3], ["int", "str"]) if tier == "quick" else ([4, 3], ["int", "str"])
        U = {"dims": [{"letter": l, "name": gen.NAMES[l], "items": gen.items_for(l, k, n, kd), "dtype": gen.kind_dtype(kd)} for k, (l, n, kd) in enumerate(zip(letters, lens, kinds))]}
        lay = {"wide": None, "index": [], "header": {"a": "name", "b": "letter"}, "value_col": "value"}
        kinds_ = ["drop_row", "dup_row", "relabel", "blank", "relabel_known", "swap_labels"]
        positions = [0, 4, 7]
        for r in (2, 3):
            for ks in it.product(kinds_, repeat=r):
                for ps in it.product(positions, repeat=r) if r == 2 else [(0, 0, 0), (0, 4, 7), (7, 4, 0), (4, 4, 4), (1, 5, 2)]:
                    faults = [{"kind": k, "pos": p, "pos2": p + 1, "dim": i, "other_value": bool(i % 2)} for i, (k, p) in enumerate(zip(ks, ps))]
                    for am in (False, True):
                        for ae in (False, True):
                            for dup_index in ((False, True) if r == 2 else (ps[0] % 2 == 1,)):
                                yield {"universe": U, "letters": letters, "layout": lay, "faults": faults, "allow_missing": am, "allow_extra": ae,
                                       "entry": "from_df" if (am + ae) % 2 else "set_values_from_df", "dup_index": dup_index}

    def run(self, desc):
        return run_fault_case(desc)


class Fuzz(Facet):
    """Coverage-guided campaign (atheris / libFuzzer) on fuzz/df_import_fuzz.py, thorough tier only:
    16 shards x -runs, even shards from an empty corpus, odd shards from a few fixed seed inputs."""

    name = "fuzz"
    tiers = ("thorough",)
    shards = {"quick": 0, "thorough": 16}
    runs = 30000

    def external(self, tier, seed, shard, nshards, suppressed):
        import json
        import shutil
        import subprocess
        import sys

        from vlib import env
        from vlib.runner import derive_seed

        target = os.path.join(env.VERIF, "fuzz", "df_import_fuzz.py")
        work = tempfile.mkdtemp(prefix=f"verif_fuzz_{shard}_")
        try:
            corpus = os.path.join(work, "corpus")
            os.makedirs(corpus)
            if shard % 2:
                for i, b in enumerate([bytes(range(64)), b"\x01" * 48, bytes((7 * k + shard) % 256 for k in range(64)), b"\x02\x03\x01\x00\x02\x01" * 8]):
                    open(os.path.join(corpus, f"seed{i}"), "wb").write(b)
            s32 = derive_seed(seed, "C12", "fuzz", shard) % (2**31 - 1) + 1
            cmd = [sys.executable, target, f"-runs={self.runs}", f"-seed={s32}", "-max_len=64", "-len_control=0", "-timeout=60", f"-artifact_prefix={work}/", corpus]
            r = subprocess.run(cmd, capture_output=True, text=True, cwd=work, env=dict(os.environ, PYTHONHASHSEED="0"))
            out = r.stderr + r.stdout
            execs = 0
            for line in out.splitlines():
                if line.startswith("#") and ("DONE" in line or "pulse" in line or "NEW" in line or "REDUCE" in line):
                    try:
                        execs = max(execs, int(line.split()[0][1:]))
                    except ValueError:
                        pass
            cov = [l for l in out.splitlines() if " cov: " in l]
            crashes = [f for f in os.listdir(work) if f.startswith(("crash-", "timeout-", "oom-"))]
            failure = None
            samples = []
            for f in sorted(os.listdir(corpus))[:2]:
                d = subprocess.run([sys.executable, target, "--decode", os.path.join(corpus, f)], capture_output=True, text=True)
                try:
                    samples.append(json.loads(d.stdout.strip().splitlines()[-1]))
                except Exception:
                    pass
            nontrivial = set()
            from vlib.runner import fingerprint

            for f in sorted(os.listdir(corpus)):
                nontrivial.add(fingerprint(open(os.path.join(corpus, f), "rb").read().hex()))
            if crashes:
                cf = os.path.join(work, crashes[0])
                d = subprocess.run([sys.executable, target, "--decode", cf], capture_output=True, text=True)
                desc = json.loads(d.stdout.strip().splitlines()[-1])
                try:
                    run_fault_case(desc)
                    bucket, msg = "fuzz-crash-not-reproduced", out[-400:]
                except Violation as v:
                    bucket, msg = v.bucket, v.msg
                except Discard:
                    bucket, msg = "fuzz-crash-not-reproduced", "discarded on replay"
                except Exception as e:
                    from vlib.runner import classify_exception

                    v = classify_exception(e)
                    if v is None:
                        return {"harness_error": f"fuzz target crashed outside flodym: {e!r}\n{out[-800:]}"}
                    bucket, msg = v.bucket, v.msg
                if bucket not in suppressed:
                    failure = {"bucket": bucket, "message": msg, "descriptor": dict(desc, _via="atheris")}
            elif r.returncode != 0:
                return {"harness_error": f"fuzz target exited {r.returncode} without artifact\n{out[-800:]}"}
            return {
                "evals": execs,
                "discards": {},
                "nontrivial": sorted(nontrivial),
                "classes": {"corpus-entries": len(os.listdir(corpus)), "seeded-corpus" if shard % 2 else "empty-corpus": 1},
                "samples": samples,
                "excluded": {},
                "failure": failure,
                "coverage_line": cov[-1][:120] if cov else "",
            }
        finally:
            shutil.rmtree(work, ignore_errors=True)

    def run(self, desc):
        d = {k: v for k, v in desc.items() if k != "_via"}
        return run_fault_case(d)


Prop(
    "C12",
    "fault_enumeration",
    "A correct frame is rendered from logical records (1-3 dims of typed int / typed str / untyped str items, long or wide, "
    "dims in index or columns, identified by name or letter, column permutations, single-item dims left out) and faults are "
    "injected: drop row i, duplicate row i at position j (same or other value), relabel a cell to an unknown item of the right "
    "type, blank a value, drop a dimension column, add junk value columns, relabel or drop a column of a wide frame. faults: 0-2 "
    "(thorough 3) generated faults x 4 flag combinations x entry points from_df / set_values_from_df (prior content must "
    "survive a failure) / CSVParameterReader / ExcelParameterReader (real files). single: every single fault at EVERY position "
    "of 2 (thorough 5) frames x 2-4 layouts x 4 flag combinations x 2 entry points (exhaustive). combos: all ordered pairs and triples of "
    "row-level faults at several positions x 4 flag combinations on one frame (exhaustive). Oracle: contract model "
    "(default: any fault but a dropped single-item dim column must raise; allow_missing: missing/blank -> 0 and every present "
    "entry under its labels; allow_extra: rows with unknown items ignored; duplicates always raise). Non-trivial = fault not in "
    "the first two rows, or a wide layout, or a combined fault.",
    [Faults(), Single(), Combos(), Fuzz()],
    assumptions=[
        "thorough tier adds facet 'fuzz': an atheris (libFuzzer) campaign of 16 x 12000 executions on fuzz/df_import_fuzz.py with the same oracles inside the target; distinct non-trivial = inputs libFuzzer kept in its corpus (new coverage); -seed pins a campaign only approximately, the saved descriptor is the reproducible unit",
        "unknown items have the dimension's declared type (an unparsable item for an int dimension fails type conversion before the flags apply)",
        "not asserted either way (contract silent): duplicates occurring only among ignored extra rows; a dropped item column of a wide frame under allow_missing_values",
        "relabelling the only column of a wide frame over a single-item dimension turns it into a valid long frame and is not a fault",
    ],
)
