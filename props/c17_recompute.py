"""C17 - recomputing a stock reflects its current inputs only (histories).

Facet ``history``: step lists {set driver, set_prms, compute, read sf/pdf, compute twice} on one
stock object of every class; after every compute() all results must equal those of a freshly
built stock holding the same driver and parameters.
Facet ``system``: an MFASystem subclass built from definitions whose compute() pushes its
parameters into the stocks' lifetime models; run repeatedly with changing parameter values,
compared with a freshly built system each time.
"""
from __future__ import annotations

import numpy as np
from hypothesis import strategies as st

from props.c03_balance import classes_of
from vlib import build, gen, stockgen as sg
from vlib.build import fd
from vlib.runner import Discard, Facet, Prop, Violation, require


def results(stock):
    out = dict(
        stock=np.array(stock.stock.values, float),
        inflow=np.array(stock.inflow.values, float),
        outflow=np.array(stock.outflow.values, float),
    )
    if hasattr(stock, "lifetime_model"):
        out["sbc"] = np.array(stock.get_stock_by_cohort(), float)
        out["obc"] = np.array(stock.get_outflow_by_cohort(), float)
        out["sf"] = np.array(stock.lifetime_model.sf, float)
        out["pdf"] = np.array(stock.lifetime_model.pdf, float)
    return out


def compare(a, b, what, bucket):
    for k in a:
        scale = max(1.0, float(np.max(np.abs(b[k]))) if b[k].size else 1.0)
        if not np.all(np.isfinite(b[k])):
            raise Discard("non-finite reference")
        d = float(np.max(np.abs(a[k] - b[k]))) if a[k].size else 0.0
        require(d <= 1e-12 * scale, bucket, f"{what}: {k} differs from a fresh object by {d:.3g}")


def guard(cfg, lt):
    if cfg["cls"].startswith("sdsm"):
        probe = sg.build_stock(dict(cfg, cls="idsm", lt=lt))
        if sg.first_interval_survival(probe) < 0.05 or sg.cond_inf(probe) > 1e8:
            raise Discard("ill-conditioned")


def run_history(desc):
    cfg = dict(desc["cfg"], scale=1.0, int_driver=False)  # drivers are set explicitly (floats written in place)
    U = sg.universe_of(cfg)
    shape = tuple(len(d["items"]) for d in U["dims"])
    n = int(np.prod(shape))
    cur_driver = np.array(cfg["driver"], float)
    cur_lt = cfg.get("lt")
    cur_out = np.array(cfg.get("outflow", []), float)
    if cur_lt:
        guard(cfg, cur_lt)
    stock = sg.build_stock(cfg)
    computed = False
    set_after_compute = False
    classes = set()
    for s in desc["steps"]:
        op = s["op"]
        if op == "set_driver":
            prev_driver = cur_driver
            cur_driver = np.resize(np.array(s["vals"], float), n)
            if s.get("nudge"):
                # a sensitivity / finite-difference step: the driver changes only slightly
                cur_driver = prev_driver * (1.0 + s["nudge"]) if s["nudge_kind"] == "rel" else prev_driver + s["nudge"]
                classes.add("driver-nudged")
            target = stock.stock if cfg["cls"].startswith("sdsm") else stock.inflow
            if s["how"] % 3 == 0:
                target.values[...] = cur_driver.reshape(shape)
            elif s["how"] % 3 == 1:
                target[...] = fd.StockArray(dims=target.dims, values=cur_driver.reshape(shape).copy())
            else:
                target.set_values(cur_driver.reshape(shape).copy())
            if cfg["cls"] == "simple" and s["how"] >= 3:
                cur_out = np.resize(np.array(s["vals"][::-1], float), n)
                stock.outflow.values[...] = cur_out.reshape(shape)
        elif op == "set_prms":
            if cur_lt is None:
                continue
            new_lt = dict(cur_lt, prms=s["prms"])
            guard(cfg, new_lt)
            cur_lt = new_lt
            stock.lifetime_model.set_prms(**{k: sg.build_prm(U, p) for k, p in s["prms"].items()})
            if computed:
                set_after_compute = True
        elif op == "settings":
            # the inflow instant / quadrature order are changed on the model the stock holds, then the
            # parameters are set again (the documented way to make a model recompute its tables)
            if cur_lt is None:
                continue
            new_lt = dict(cur_lt, inflow_at=s["inflow_at"], n_pts=s["n_pts"])
            guard(cfg, new_lt)
            cur_lt = new_lt
            stock.lifetime_model.inflow_at = s["inflow_at"]
            stock.lifetime_model.n_pts_per_interval = s["n_pts"]
            stock.lifetime_model.set_prms(**{k: sg.build_prm(U, p) for k, p in cur_lt["prms"].items()})
            if computed:
                set_after_compute = True
        elif op == "read":
            if cur_lt is None:
                continue
            _ = stock.lifetime_model.sf if s["how"] % 2 else stock.lifetime_model.pdf
            computed = True
        elif op in ("compute", "compute2"):
            stock.compute()
            r1 = results(stock)
            if op == "compute2":
                stock.compute()
                compare(results(stock), r1, "second compute()", "compute-not-idempotent")
            ref_cfg = dict(cfg, driver=list(cur_driver), lt_via="instance")
            if cur_lt:
                ref_cfg["lt"] = cur_lt
            if cfg["cls"] == "simple":
                ref_cfg["outflow"] = list(cur_out)
            fresh = sg.build_stock(ref_cfg)
            fresh.compute()
            compare(r1, results(fresh), f"after {sorted(classes)}", "recompute-differs-from-fresh-object")
            computed = True
        classes.add(op)
    cl = classes_of(cfg) + sorted(classes)
    if set_after_compute:
        cl.append("set_prms-after-compute")
    return {"nontrivial": set_after_compute, "classes": cl}


@st.composite
def histories(draw, max_steps=8):
    cfg = draw(sg.stock_configs(max_n=6, signed=False, max_extra=1))
    U = sg.universe_of(cfg)
    n = gen._size(U, gen.uletters(U))
    steps = []
    for _ in range(draw(st.integers(2, max_steps))):
        op = draw(st.sampled_from(["set_driver", "set_prms", "set_prms", "compute", "compute", "compute2", "read", "settings"]))
        s = {"op": op, "how": draw(st.integers(0, 5))}
        if op == "settings":
            s["inflow_at"] = draw(st.sampled_from(["start", "middle", "end"]))
            s["n_pts"] = draw(st.sampled_from([1, 1, 2, 3, 5]))
        if op == "set_driver":
            s["vals"] = draw(st.lists(st.floats(0.0, 50.0), min_size=n, max_size=n))
            if draw(st.integers(0, 2)) == 0:
                s["nudge"] = draw(st.sampled_from([1e-4, 2e-6, 1e-7, 1e-9]))
                s["nudge_kind"] = draw(st.sampled_from(["rel", "rel", "abs"]))
        elif op == "set_prms" and "lt" in cfg:
            s["prms"] = draw(sg.lifetime_descs(U, classes=(cfg["lt"]["cls"],), well_conditioned=True))["prms"]
        elif op == "set_prms":
            continue
        steps.append(s)
    steps.append({"op": "compute", "how": 0})
    return {"cfg": cfg, "steps": steps}


class History(Facet):
    name = "history"
    examples = {"quick": 8000, "thorough": 200000}
    shards = {"quick": 16, "thorough": 16}

    def strategy(self, tier):
        return histories(max_steps=8 if tier == "quick" else 12)

    def run(self, desc):
        return run_history(desc)


# ------------------------------------------------------------------------------ system


class _Reader(fd.DataReader):
    def __init__(self, U, prm_vals):
        self.U, self.prm_vals = U, prm_vals

    def read_dimension(self, definition):
        return build.dimension(build.udim(self.U, definition.letter))

    def read_parameter_values(self, parameter_name, dims):
        v = self.prm_vals[parameter_name]
        return fd.Parameter(dims=dims, values=np.array(v, float).reshape(dims.shape), name=parameter_name)


class _LoopMFA(fd.MFASystem):
    def compute(self):
        st_ = self.stocks["in use"]
        st_.inflow[...] = self.parameters["demand"]
        st_.lifetime_model.set_prms(mean=self.parameters["lt mean"], std=self.parameters["lt std"])
        st_.compute()
        self.flows["sysenv => use"][...] = st_.inflow
        self.flows["use => sysenv"][...] = st_.outflow


def run_system(desc):
    cfg = desc["cfg"]
    U = sg.universe_of(cfg)
    letters = gen.uletters(U)
    dd = [fd.DimensionDefinition(name=d["name"], letter=d["letter"], dtype=build._DT[d["dtype"]]) for d in U["dims"]]
    definition = fd.MFADefinition(
        dimensions=dd,
        processes=["sysenv", "use"],
        flows=[
            fd.FlowDefinition(from_process="sysenv", to_process="use", dim_letters=tuple(letters)),
            fd.FlowDefinition(from_process="use", to_process="sysenv", dim_letters=tuple(letters)),
        ],
        stocks=[fd.StockDefinition(name="in use", process="use", dim_letters=tuple(letters), subclass=fd.InflowDrivenDSM, lifetime_model_class=getattr(fd, desc["lt_cls"]))],
        parameters=[
            fd.ParameterDefinition(name="demand", dim_letters=tuple(letters)),
            fd.ParameterDefinition(name="lt mean", dim_letters=tuple(desc["prm_letters"])),
            fd.ParameterDefinition(name="lt std", dim_letters=()),
        ],
    )
    shape = tuple(len(d["items"]) for d in U["dims"])
    n = int(np.prod(shape))
    npm = gen._size(U, desc["prm_letters"])

    def prms(round_):
        return {
            "demand": list(np.resize(np.array(round_["demand"], float), n)),
            "lt mean": list(np.resize(np.array(round_["mean"], float), npm)),
            "lt std": [round_["std"]],
        }

    rounds = desc["rounds"]
    mfa = _LoopMFA.from_data_reader(definition, _Reader(U, prms(rounds[0])))
    for i, r in enumerate(rounds):
        p = prms(r)
        for name, v in p.items():
            mfa.parameters[name].values[...] = np.array(v, float).reshape(mfa.parameters[name].dims.shape)
        mfa.compute()
        if i % 2:
            mfa.compute()
        fresh = _LoopMFA.from_data_reader(definition, _Reader(U, p))
        fresh.compute()
        compare(results(mfa.stocks["in use"]), results(fresh.stocks["in use"]), f"scenario round {i}", "system-recompute-differs-from-fresh-system")
        for fn in mfa.flows:
            d = float(np.max(np.abs(mfa.flows[fn].values - fresh.flows[fn].values)))
            require(d <= 1e-12 * max(1.0, float(np.max(np.abs(fresh.flows[fn].values)))), "system-recompute-differs-from-fresh-system", f"flow {fn} round {i}: {d:.3g}")
    return {"nontrivial": len(rounds) >= 2, "classes": [f"rounds:{len(rounds)}", f"lt:{desc['lt_cls']}", f"grid:{sg.grid_kind(cfg['grid'])}"]}


@st.composite
def system_cases(draw):
    grid = draw(sg.grids(max_n=6))
    cfg = {"grid": grid, "extra": draw(sg.extras(max_extra=1))}
    U = sg.universe_of(cfg)
    letters = gen.uletters(U)
    n = gen._size(U, letters)
    mean_dt = (grid[-1] - grid[0]) / (len(grid) - 1)
    pl = draw(gen.ordered_subtuple(letters[1:]))
    npm = gen._size(U, pl)
    rounds = []
    for _ in range(draw(st.integers(2, 4))):
        rounds.append(
            {
                "demand": draw(st.lists(st.floats(0.0, 50.0), min_size=n, max_size=n)),
                "mean": draw(st.lists(st.floats(0.8 * mean_dt, 5 * mean_dt), min_size=npm, max_size=npm)),
                "std": draw(st.floats(0.2 * mean_dt, 2 * mean_dt)),
            }
        )
    return {"cfg": cfg, "prm_letters": pl, "lt_cls": draw(st.sampled_from(["NormalLifetime", "FoldedNormalLifetime", "LogNormalLifetime"])), "rounds": rounds}


class System(Facet):
    name = "system"
    examples = {"quick": 800, "thorough": 36000}
    shards = {"quick": 16, "thorough": 16}

    def strategy(self, tier):
        return system_cases()

    def run(self, desc):
        return run_system(desc)


Prop(
    "C17",
    "exploration",
    "history: generated step lists over {set driver (three ways), set_prms with new scalar/per-label/per-cohort parameters, "
    "compute, compute twice, read sf/pdf} on one stock of every class (flow-driven, inflow-driven, stock-driven x 2 solvers) and "
    "lifetime model; after every compute() stock, inflow, outflow, cohort tables, sf and pdf must equal (1e-12 relative) those of "
    "a freshly constructed stock holding the current driver and parameters, and a second compute() must change nothing. system: "
    "an MFASystem subclass built from definitions via from_data_reader whose compute() pushes self.parameters into the stock's "
    "lifetime model, run 2-4 rounds with changing parameter values, compared with a freshly built system after each round. "
    "Non-trivial = history where set_prms follows a compute() or a table read / >= 2 scenario rounds.",
    [History(), System()],
    assumptions=["parameters are changed through set_prms (the public setter), not by assigning attributes"],
)
